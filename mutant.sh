#!/bin/bash
# usage: mutant.sh <name> <IDs comma-separated> <<< "sed-or-shell commands run inside the scratch copy"
# Applies an edit to a scratch worktree of /repo, checks that it still builds, runs the given checks (quick tier)
# against it via VERIF_REPO, prints the verdicts and removes the worktree.
name=$1; ids=$2; tier=${3:-quick}
W=/tmp/mut-$name-$$
git -C /repo worktree add -q --detach "$W" HEAD || exit 2
trap 'git -C /repo worktree remove --force "$W" >/dev/null 2>&1; rm -rf "$W" /tmp/mutout-$name-$$' EXIT
( cd "$W" && bash -e /dev/stdin ) || { echo "MUTANT $name: edit failed"; exit 2; }
( cd "$W" && git diff --stat | tail -1 )
( cd "$W" && GOFLAGS=-mod=mod go build ./... ) || { echo "MUTANT $name: does not build"; exit 2; }
for id in ${ids//,/ }; do
  out=$(VERIF_REPO="$W" VERIF_OUT=/tmp/mutout-$name-$$ /verif/check "$id" --tier "$tier" 2>/tmp/mutout-$name-$$.err); rc=$?
  echo "MUTANT $name check $id rc=$rc $(echo "$out" | head -2 | cut -c1-300)"
  [ $rc = 2 ] && tail -5 /tmp/mutout-$name-$$.err
  rm -f /tmp/mutout-$name-$$.err
done
