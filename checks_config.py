"""Per-property configuration of the driver: which harness package/test decides it, budgets per
tier (case counts, never timers), the non-triviality rule reported in evidence, and the generator
classes that must be non-empty for a run to count (a vacuous run is exit 2, not a pass)."""

def part(test, quick, thorough, qshards=1, tshards=16, **kw):
    d = dict(test=test, quick=dict(checks=quick, shards=qshards), thorough=dict(checks=thorough, shards=tshards))
    d.update(kw)
    return d

CHECKS = {
    'C01': dict(
        pkg='c01', level='exploration',
        technique='property-based testing: rapid-generated request histories vs. pairwise slashing oracle over released signatures',
        level_text=('Generated histories of single/batch attestation requests with restarts over the real signer stack '
                    '(real BLS keys, real badger store); after every step every released signature is compared pairwise '
                    '(double vote, surround; unsigned 64-bit) with all earlier releases of the key. Sampling, not proof: '
                    'held on the N generated histories reported in evidence.'),
        level_note='Trusts herumi BLS, badger and the Go runtime; 4 fixed keys; histories up to 40 steps; oracle is independent of the watermark rule.',
        parts=[part('TestC01', 600, 6000, qshards=2)],
        rule=('rapid-generated histories (1-40 steps: single/batch attestation requests, proposals as noise, restarts; '
              'epochs from a collision-prone mixture incl. >=2^63) run against a real signer stack (real BLS, real badger); '
              'a case is non-trivial iff at least one request conflicted (double vote / surround, by the pairwise oracle) '
              'with a signature released earlier in the same history; distinct = sha256 of the case JSON'),
        essential=['has-batch', 'batch-repeats-key', 'single+batch-on-one-key', 'restart-after-release',
                   'uses-value>=2^63', 'request-at-0-after-release-at-0', 'by-public-key', 'via-grpc-handler', 'public-key-with-trailing-bytes', 'history-with-a-store-write-failure-window'],
        assumptions=['herumi BLS and badger are trusted', 'key material is a fixed pool of 4 keys',
                     'released = response carries a non-empty signature'],
    ),
    'C02': dict(
        pkg='c01', level='exploration',
        technique='property-based testing: rapid-generated proposal histories vs. strictly-increasing-slot oracle over released signatures',
        level_text=('Generated histories of proposal requests (by name/key, service and gRPC handler, restarts, full uint64 slot '
                    'range) over the real signer stack; oracle: released slots per key strictly increase in release order and the '
                    'export never falls below a released slot. Sampling, not proof.'),
        level_note='Trusts herumi BLS, badger and the Go runtime; 4 fixed keys; histories up to 40 steps.',
        parts=[part('TestC02', 700, 6000, qshards=2)],
        rule=('rapid-generated histories (1-40 steps: proposal requests by name/key via service or gRPC handler, '
              'attestations as noise, restarts; slots from a collision-prone mixture incl. >=2^63); non-trivial iff '
              'at least one proposal request was at or below a slot already released for that key'),
        essential=['restart-after-release', 'uses-value>=2^63', 'request-at-0-after-release-at-0', 'by-public-key',
                   'via-grpc-handler', 'public-key-with-trailing-bytes', 'history-with-a-store-write-failure-window'],
        assumptions=['herumi BLS and badger are trusted', 'released = response carries a non-empty signature'],
    ),
}

CHECKS['C08'] = dict(
    pkg='c08', level='exploration',
    technique='property-based testing: rapid-generated well-formed requests on all five signing endpoints vs. independent SSZ signing root + BLS verification',
    level_text=('Generated well-formed requests with arbitrary field values on Sign/Multisign/SignBeaconAttestation(s)/SignBeaconProposal, by name '
                'or key, through the service and the gRPC handler (wire round trip), batches 1..600 of distinct keys under GOMAXPROCS 1..16; every '
                'returned signature is verified under the addressed account\'s public key over a signing root computed by the harness\'s own '
                'sha256 merkleisation; response length must equal request length. Unique data per position makes a misplaced signature fail.'),
    level_note='Trusts herumi BLS verification (go-eth2-types) and crypto/sha256; the SSZ merkleisation is the harness\'s own (no fastssz / go-eth2-client).',
    parts=[part('TestC08', 250, 1500, qshards=2)],
    rule=('rapid-generated cases: GOMAXPROCS 1..16 x 1-5 calls over the five endpoints, batch sizes from {1,2,3,p-1,p,p+1,2p+-1,3p,3p+1,4..99,100..600}, '
          'uint64 extremes for slot/index/proposer, advancing epochs per key; non-trivial iff a batch larger than GOMAXPROCS was signed at every '
          'position or a signed request carried an extreme field value; distinct = sha256 of the case JSON'),
    essential=['batch-larger-than-gomaxprocs-all-signed', 'batch>=100', 'endpoint-attest', 'endpoint-attests', 'endpoint-propose', 'endpoint-sign',
               'endpoint-multisign', 'gomaxprocs-01', 'batch-sharing-data-identical', 'batch-sharing-data-one-field', 'batch-with-mixed-verdicts'],
    assumptions=['herumi BLS verification is trusted', 'requests are well-formed (32-byte roots and domains)'],
)

CHECKS['C09'] = dict(
    pkg='c09', level='exploration',
    technique='property-based testing: model-relative generation of advancing duties (all must be signed), differential batch vs one-at-a-time on twin instances, partition oracle for util.Scatter',
    level_text=('(a) histories whose every request is drawn relative to the reference watermark state so that the statement requires a signature '
                '(equal source, genesis 0/0, values next to 2^63-1, restarts, batches in any key order, by name/key, service and gRPC): every one must '
                'be SUCCEEDED with a valid signature. (b) twin real instances driven through the same prefix; a batch of 2..400 distinct keys with entries in '
                'every relation to the watermark goes as one call to one twin and entry by entry to the other: verdicts and stored state must agree. '
                '(c) util.Scatter(n) for n in 1..5000 x GOMAXPROCS 1..64 must hand out disjoint consecutive non-empty extents covering [0,n).'),
    level_note='Trusts herumi BLS and badger; reading of the statement: position-by-position equality is checked for mixed batches too (DESIGN C09).',
    parts=[part('TestC09Live', 700, 5000), part('TestC09Diff', 400, 2500), part('TestC09Scatter', 5000, 30000, tshards=4)],
    rule=('three generators: (a) model-relative advancing histories, non-trivial iff the history has an equal-source step and a restart or a batch; '
          '(b) twin differential batches, non-trivial iff the batch contains both an approved and a denied position; (c) Scatter(n, GOMAXPROCS), '
          'non-trivial iff n is not divisible by GOMAXPROCS; distinct = sha256 of the case JSON'),
    essential=['live:equal-source', 'live:genesis-0/0', 'live:near-2^63', 'live:has-restart', 'live:has-batch', 'diff:mixed-verdict-batch',
               'diff:batch-larger-than-gomaxprocs', 'diff:batch>=100', 'scatter:n-not-divisible', 'scatter:n<gomaxprocs'],
    assumptions=['herumi BLS verification is trusted', 'epochs below 2^63 as the statement says'],
)

CHECKS['C05'] = dict(
    pkg='c05', level='exploration',
    technique='property-based testing: generated (domain-prefix class, endpoint, admin-IP list, source address) vs. the decision table of the statement',
    level_text=('Generated requests over all five signing endpoints (service and gRPC handler with wire round trip), domains from every 4-byte type '
                'class incl. near misses and odd lengths, admin-IP lists (none/one/many incl. IPv6) and source addresses (absent/listed/unlisted): generic '
                'endpoints must never sign attester/proposer domains (position by position), may sign exit domains only from a listed address; the '
                'attestation/proposal endpoints must refuse every foreign domain and leave the stored record of that key unchanged.'),
    level_note='Only the stated direction is asserted for exits (signed => listed address); textual normalisation of addresses is not generated (statement is silent).',
    parts=[part('TestC05', 1500, 8000, qshards=2)],
    rule=('rapid-generated single calls; a case is non-trivial iff some position carries an attester/proposer/exit domain on a generic endpoint or a foreign '
          'domain on a protected endpoint; distinct = sha256 of the case JSON'),
    essential=['endpoint-sign', 'endpoint-multisign', 'endpoint-attest', 'endpoint-attests', 'endpoint-propose', 'exit-from-listed-ip-signed',
               'exit-refused', 'other-generic-domain-signed', 'right-domain-on-protected-endpoint-signed', 'domain-length-not-32'],
    assumptions=['requests are otherwise valid (authorised client, unlocked accounts, 32-byte data)'],
)

CHECKS['C06'] = dict(
    pkg='c06', level='fault_enumeration',
    technique='fault injection: complete single-fault table (request kind x dependency call site x batch position) plus rapid-generated multi-fault plans, oracle signature<=>SUCCEEDED and no signature on a faulted path',
    level_text=('Every single fault of the table (account lookup, permission check, IsUnlocked, unlocker error/false, locked account with unknown '
                'passphrase, rules FAILED/UNKNOWN/DENIED per position, short and all-UNKNOWN rule lists, store fetch/store/batch errors via the '
                'verif hook, five kinds of undecodable stored record, store closed before / at fetch / at store, unhashable domain, Sign error, '
                'non-signer account) is injected once per request kind and position class (first/middle/last), through the service and the gRPC '
                'handler, against real services; rapid adds plans of 0-4 simultaneous faults on batches up to 20. Oracle: signature iff SUCCEEDED '
                'per position; a fault that actually fired on position i leaves i unsigned; surviving signatures verify.'),
    level_note=('Faults are injected at exported interfaces and at the verif hook in Store.Fetch/Store/BatchStore; a request that never answers '
                '(badger WriteBatch.Flush blocks on a closed DB) counts as "no signature". Over-long result lists are out of scope (no rules.Service produces them).'),
    parts=[part('TestC06Enum', 1, 1, tshards=1, no_rapid_count=True), part('TestC06Random', 600, 5000, qshards=2)],
    rule=('enumerated table: 5 request kinds x 19 fault sites (with modes) x position classes x {service,gRPC}, run completely in both tiers, plus '
          'rapid-generated plans of 0-4 faults; a case is non-trivial iff a planned fault actually fired on a position that the fault-free twin run of the '
          'same request signed; distinct = sha256 of the case JSON'),
    essential=['fault-fired-on-otherwise-signed-position', 'multi-fault-plan', 'enumerated-single-fault-cases', 'batch-with-rule-denied-positions'] + ['fired:' + s for s in [
        'fetch', 'check', 'isunlocked-err', 'unlock-err', 'unlock-false', 'locked-unknown-passphrase', 'rules', 'ruler', 'rules-list', 'store-fetch-err',
        'store-store-err OR fired:store-batch-err', 'record-undecodable', 'store-closed-before', 'store-closed-at-fetch', 'store-closed-at-store',
        'hash-fail', 'sign-err', 'non-signer']],
    assumptions=['fault model: errors/indeterminate answers at dependency boundaries, not memory corruption', 'herumi BLS verification is trusted'],
)

CHECKS['C03'] = dict(
    pkg='c03', level='fault_enumeration',
    technique='crash-point enumeration over rapid-generated histories: self-kill at every storage/sign/reply hook event and external SIGKILL, restart and conflicting probes; durability invariant over the strace syscall trace with restart on the power-loss image',
    level_text=('L1 (in process): at every AccountSigner.Sign invocation the exported record of the key must already dominate the request. '
                'L2: for each generated history the crash child (real signer stack, real badger) is killed at every hook event (store fetch/store/batch '
                'enter+exit, sign enter/exit, return, each release; a drawn subset when there are more than 24/48), and by an external SIGKILL at drawn '
                'instants; after restart on the same directory the export must dominate every signature that reached the pipe, fresh conflicting probes '
                '(double vote, surrounding, surrounded, same/lower slot) and the rest of the history must stay slashing-free, including after a second crash. '
                'L3: the first lifetime runs under strace; at every release marker every byte written to *.vlog/MANIFEST must be durable (O_DSYNC or fsync), '
                'and the restart happens on the power-loss image (files cut to their durable length).'),
    level_note=('Power-loss model is per-file durable prefix (no torn sectors, no directory-entry loss); kernel, file system and badger recovery are trusted. '
                'Crash points are enumerated per history; histories are sampled.'),
    parts=[part('TestC03Record', 300, 3000), part('TestC03Kill', 25, 80, qshards=4), part('TestC03Power', 10, 40, qshards=2)],
    rule=('a case is one (history, crash plan): history of 1-8 single/batch/proposal requests from the C01 generator, crash point k = n-th hook event '
          '(self-kill) or n-th stdout line (external SIGKILL), optional second crash; non-trivial iff a signature had been released before the kill or the '
          'kill fell after the first storage read of a request (inside the record/sign/reply window); for L1 a history in which at least one Sign invocation '
          'was checked; distinct = sha256 of the case JSON'),
    essential=['kill@store.fetch.enter OR kill@store.store.enter OR kill@store.batch.enter', 'kill@store.fetch.exit OR kill@store.store.exit OR kill@store.batch.exit', 'kill@store.store.enter OR kill@store.batch.enter', 'kill@store.store.exit OR kill@store.batch.exit', 'kill@sign.enter', 'kill@sign.exit', 'kill@return', 'kill@released', 'double-crash', 'external-sigkill',
               'kill-after-a-release', 'traced', 'release-markers-checked-for-durability', 'record-checked-at-sign-invocation',
               'history-with-all-crash-points-enumerated', 'history-with-concurrent-requests', 'l1-requests-sent-concurrently'],
    assumptions=['strace -f -y is available and ptrace is permitted', 'badger recovery code and the kernel are trusted',
                 'a Dirk that cannot restart refuses everything (class restart-failed, not a violation)'],
)

CHECKS['C15'] = dict(
    pkg='c15', level='exploration',
    technique='property-based testing with schedule steering: rapid-generated rounds of concurrent requests with opposite/nested/crossing key orders, steered in a recording locker; completion oracle (watchdog + stack-confirmed deadlock) and lock-order-cycle invariant over the recorded acquisitions',
    level_text=('Rounds of 2-6 concurrent batch/single/multisign requests whose key lists are ordered selections of 4 keys run on the real signer stack with a recording '
                'wrapper around the real syncmap locker; the wrapper makes a request that has taken its first key wait (bounded) until a rival has taken its first key - '
                'the interleaving that deadlocks an implementation without a common gate or a global order. Oracle 1: every call returns (1 s, then 20 s watchdog; VIOLATION only '
                'with >=2 goroutines blocked in the locker on unchanged stacks). Oracle 2: the lock-order graph of acquisitions made outside a held gate has no cycle; every acquired '
                'key is released when the calls have returned. Plus sustained load: 8 goroutines x 60/200 random requests.'),
    level_note='The Go scheduler is steered, not owned; liveness is approximated by bounded completion plus the structural lock-order invariant (implementation-agnostic: a gate or a global key order both pass).',
    parts=[part('TestC15', 1500, 12000, qshards=2), part('TestC15Load', 6, 30, qshards=1, tshards=8)],
    rule=('a case is 1-4 rounds; a round is non-trivial iff two multi-key requests share >= 2 keys in different relative order and their executions overlapped in time; '
          'sustained-load cases count as one each; distinct = sha256 of the case JSON'),
    essential=['overlapping-batches-sharing-keys-in-different-order', 'sustained-load-requests', 'request-naming-a-key-twice'],
    assumptions=['timing only affects how often a broken implementation is caught, never the verdict on a correct one'],
)

CHECKS['C04'] = dict(
    pkg='c04', level='exploration',
    technique='property-based testing with schedule steering: rapid-generated rounds of concurrent conflicting requests, parked inside the storage hooks, checked by brute-force linearizability against the per-key watermark model respecting real-time order',
    level_text=('Rounds of 2-6 concurrent single/batch attestation and proposal requests over 3 keys (epochs chosen so most pairs conflict; batches list shared keys '
                'in arbitrary order) run on the real signer stack; a steering plan parks the first arrival at a storage hook (after its read / before its write) for 1-8 ms so '
                'that an unprotected rival must overlap. Every invocation/response is stamped; all permutations compatible with real-time order (<=720) are replayed through '
                'the reference watermark model; some permutation must reproduce every verdict and the final exported state (no double approval, no lost update, no spurious refusal).'),
    level_note='The Go scheduler is steered, not owned: races whose window is not at a storage hook are only sampled. Any outcome of a correctly locked implementation is linearizable whatever the timing.',
    parts=[part('TestC04', 1500, 7000, qshards=2), part('TestC04Fresh', 150, 1500, qshards=2), part('TestC04Big', 200, 1500, qshards=2, tshards=8)],
    rule=('a case is 1-5 rounds; non-trivial iff some round has two requests on the same key and kind whose [invocation,response] intervals overlapped; '
          'distinct = sha256 of the case JSON'),
    essential=['first-lock-contests', 'big:requests-overlapping-the-large-batch', 'overlapping-conflicting-pairs', 'attest||attest', 'attest||attests', 'attests||attests', 'propose||propose', 'parked-at-hook'],
    assumptions=['FAILED answers (none expected without faults) make a round inconclusive, not a violation'],
)

CHECKS['C07'] = dict(
    pkg='c07', level='exploration',
    technique='property-based testing: permission configurations generated from a regular-expression AST grammar, decided by an own AST matcher and first-bearing-item evaluator (no regexp on the oracle side); service-level requests with state-unchanged oracle',
    level_text=('Part A: configurations (1-3 clients x 1-5 ordered entries with wallet/account patterns built from literals, classes, dot, concatenation, alternation, groups, '
                '* + ?, own ^(...)$ anchors; ordered operation lists of All/None/op/~op in mixed case) and names sampled from the patterns and then mutated (append/prepend a '
                'character, flip case, drop a character) are put to the real static checker; every answer must equal the reference evaluator of the statement. '
                'Part B: over real wallets the signer (generic/attest/propose, single and batch, by name and by public key, service and gRPC handler), lister, account and wallet '
                'lock/unlock are called under generated configurations: a position the reference refuses must not be served and must leave the slashing-protection record and '
                'the lock state unchanged.'),
    level_note=('Only the refusal direction is asserted in part B (the statement says "only if"). User-written anchors are generated only as ^(...)$ around the whole pattern; a bare ^a|b$ is '
                'excluded because the statement does not say how it is to be read. Create-account goes through the real process service of a one-instance cluster.'),
    parts=[part('TestC07A', 30000, 150000, tshards=8), part('TestC07B', 1200, 6000, qshards=2)],
    rule=('part A: non-trivial iff some query matched at least one but not the only entry of its client (ordering, near misses and negative items matter); part B: non-trivial iff a '
          'slashable request (attest/propose) that would have advanced stored state was refused; distinct = sha256 of the case JSON'),
    essential=['a:queries-model-allows', 'a:queries-model-denies', 'b:refused-positions', 'b:refused-positions-addressed-by-public-key', 'b:allowed-and-served-positions',
               'b:refused-slashable-requests-that-would-have-advanced-state', 'b:wallet-operation-spelled-with-a-suffix'] + ['b:op-' + o for o in ['sign', 'multisign', 'attest', 'attests', 'propose', 'list', 'lock-account',
               'unlock-account', 'lock-wallet', 'unlock-wallet', 'create']],
    assumptions=['names and patterns over the alphabet {W,w,a,b,1,2,0,space}: ASCII only, so Unicode case folding plays no part'],
)

CHECKS['C12'] = dict(
    pkg='c12', level='exploration',
    technique='property-based testing over an in-process cluster: rapid-generated (instances, ids, n, t, initiator, commit-reply order, tampered commit reply), generation through the real accountmanager/receiver handlers, algebraic oracle over every participant\'s stored account and every t- and (t-1)-subset of partial signatures',
    level_text=('Clusters of 2-7 real instances (own wallet store, fetcher, signer stack, process service, receiver handler) joined by a harness network that turns every sender call into the '
                'protobuf request and hands it to the recipient\'s real receiver handler under the sender\'s certificate name. (n,t) covers 2..7 x 0..8; ids small/sparse/>=2^63/near 2^64; '
                'any initiator; commit replies released in a generated permutation; optionally one tampered commit reply. On success: n/2<t<=n; every participant (re-opened from its store) '
                'and its fetcher hold the account with the returned composite key, equal vector of length t, threshold, participant list, share key = vector evaluated at its id; partial '
                'signatures obtained at once through each signer service verify under the share keys, every t-subset recovers to a signature valid under the composite key, every '
                '(t-1)-subset does not; each lister shows the account; bystanders hold nothing. Out-of-bound and tampered requests must fail.'),
    level_note='Cryptographic soundness of Feldman VSS/BLS (herumi) is trusted; only the protocol use is tested. Key material comes from the library CSPRNG (oracles are algebraic).',
    parts=[part('TestC12', 120, 1500, qshards=2)],
    rule=('a case is one generation request on a fresh cluster; non-trivial iff it succeeded with n >= 3 or was refused for violating n/2 < t <= n; distinct = sha256 of the case JSON'),
    essential=['successful-generation', 'refused-outside-bound', 'initiator-not-a-participant', 'success-with-steered-commit-order', 'tampered-commit-reply-delivered',
               'ids-ge2^63', 'ids-near2^64', 'signature-subsets-checked', 'success-without-request-passphrase'],
    assumptions=['herumi BLS is trusted'],
)

CHECKS['C13'] = dict(
    pkg='c13', level='fault_enumeration',
    technique='fault injection on the key-generation message sequence: complete single-fault table (message position x fault kind) for five (n,t) configurations plus rapid-generated multi-fault plans; oracle error-to-client, no account on any instance, no instance crash',
    level_text=('For (n,t) in {(2,2),(3,2),(3,3),(4,3),(5,3)} (plus a bystander instance) every message of the run - each prepare, each execute, each contribution request and '
                'its reply - gets every applicable fault once: lost, error reply, duplicate delivery, share replaced by a random scalar, a consistent share for another '
                'participant\'s id, one commitment altered, vector shortened/lengthened by a fresh consistent polynomial of degree t-2 / t, vector truncated/extended '
                'without re-sharing. The harness network tampers with the real protobuf messages between real receiver handlers. Oracle: the client gets an error, no instance '
                '(participant or bystander) holds the account in store or fetcher, and no handler panicked; for duplicate delivery the outcome must be all-or-nothing. '
                'rapid adds plans of 1-3 faults with ids up to 2^64-1.'),
    level_note='Commit-stage faults are outside the statement (C12 covers tampered commit replies). A recipient panic is recovered by the harness network and reported; in production nothing would recover it.',
    parts=[part('TestC13Enum', 1, 1, qshards=4, tshards=8, no_rapid_count=True), part('TestC13Random', 150, 1500)],
    rule=('enumerated table: 5 configurations x every message position (n prepares, n executes, n(n-1)/2 contributions) x 3/19 fault kinds, run completely in both tiers and sharded by index; '
          'plus rapid-generated multi-fault plans; a case is non-trivial iff the run reached the faulted message and the fault was delivered; distinct = sha256 of the case JSON'),
    essential=['enumerated-single-fault-cases', 'multi-fault-plan'] + ['delivered:' + k for k in ['lost', 'error-reply', 'duplicate', 'share-random', 'share-for-other-id',
               'commitment-altered', 'vector-short-consistent', 'vector-long-consistent', 'vector-truncated', 'vector-extended', 'vector-empty', 'share-empty', 'reply-share-random', 'reply-share-for-other-id',
               'reply-commitment-altered', 'reply-vector-short-consistent', 'reply-vector-long-consistent', 'reply-vector-truncated', 'reply-vector-extended', 'reply-vector-empty', 'reply-share-empty',
               'replay-share-random', 'replay-share-for-other-id']],
    assumptions=['herumi BLS is trusted', 'participants are chosen by Dirk (map iteration), so a fault position is "the k-th message of its kind"'],
)

CHECKS['C16'] = dict(
    pkg='c16', level='exploration',
    technique='property-based testing over an in-process cluster: rogue protocol messages (5 kinds x non-peer identities x session states) injected into honest generations through the real receiver handlers; oracle refusal + unchanged outcome, and share-ownership check on every contribution reply',
    level_text=('Honest generations on 3-5 instance clusters with 1-3 rogue messages (prepare/execute/contribute/commit/abort, well-formed for the running session) delivered just before '
                'a drawn honest message, under the identity of a client with All permissions, an unknown name, an empty name, or a configured peer that is not a participant. Non-peer messages '
                'must be answered with an error and the generation must end exactly as an undisturbed one (success, same composite key on all participants); an idle instance probed with all '
                'five messages must keep no session (a later honest abort says not in progress). Every contribution reply, honest or provoked, is checked: its secret is the replier\'s vector '
                'evaluated at the caller\'s id and at no other participant\'s id.'),
    level_note='Identity injection uses the same context key the clientinfo interceptor sets (as the repository\'s handler tests do); the TLS layer itself is C19\'s subject. Messages from real peers are acted on by design and only held to the share-ownership rule.',
    parts=[part('TestC16', 200, 2000, qshards=2)],
    rule=('a case is one generation with 1-3 injected rogue messages; non-trivial iff a non-peer message was delivered while a generation was active on the recipient; distinct = sha256 of the case JSON'),
    essential=['non-peer-messages-delivered', 'bystander-peer-messages-delivered', 'contribution-replies-checked-for-share-ownership', 'idle-instance-probed',
               'session-state-none', 'session-state-prepared', 'session-state-executing', 'session-state-all-contributed'] +
              ['inject-%s-from-client' % m for m in ['prepare', 'execute', 'contribute', 'commit', 'abort']],
    assumptions=['herumi BLS is trusted'],
)

CHECKS['C17'] = dict(
    pkg='c17', level='exploration',
    technique='model-based (stateful) property testing: rapid-generated sequences of prepare/execute/contribute/commit/abort/clock-advance over three account names on one real instance with harness-simulated peers, checked step by step against an explicit lifecycle model',
    level_text=('One real instance (process service + receiver handler + wallet store) with five configured peers of which the harness plays four with real BLS polynomials. Sequences of up to 30 '
                'events over names A, B, C: prepare (2-5 participants, threshold in bound, the instance lowest/middle/highest id), execute (the instance\'s outgoing contributions are answered '
                'validly), contributions from lower-id participants (single, all, repeated), commit, abort, clock advance of 25/50/75 minutes against a 1 h timeout (verif hook ages the sessions). '
                'After every step the answer (ok/error) must be what the lifecycle model says - second prepare refused, messages without an active generation refused, commit only with all '
                'contributions, gone after commit/abort/expiry, re-prepare possible - and each account exists exactly when the model says a commit succeeded.'),
    level_note='Where the statement leaves an outcome open (second execute on an active session, a repeated contribution) the model accepts either answer and only requires that the session stays as it was.',
    parts=[part('TestC17', 900, 8000, qshards=2)],
    rule=('a case is one event sequence; non-trivial iff it contains a refusal caused by lifecycle state and a later successful re-prepare of a name that had been refused; distinct = sha256 of the case JSON'),
    essential=['lifecycle-refusals', 're-prepare-after-refusal', 'successful-commits', 'sessions-expired', 'self-position-0', 'self-position-1', 'self-position-2'] +
              ['refusal:' + r for r in ['second-prepare', 'execute-without-session', 'contribute-without-session', 'commit-without-session', 'commit-before-all-contributions', 'abort-without-session']],
    assumptions=['the clock is advanced through the verif hook VerifAgeGenerations in steps that never land near the timeout boundary'],
)

CHECKS['C14'] = dict(
    pkg='c14', level='exploration',
    technique='property-based testing over an in-process cluster with full signer stacks: rapid-generated (n,t), conflicting duty pair, per-instance routing lists, sequential or concurrent delivery; oracle counts valid partial signatures per duty',
    level_text=('A distributed account is generated on a 2-7 instance cluster through the real protocol (any (n,t) the tree accepts, incl. attempts at t <= n/2), optionally a common benign history is '
                'signed, then two conflicting duties (double vote, surround either way, two blocks at one slot) are offered to the participants according to generated routing lists '
                '(A then B everywhere, opposite orders, disjoint halves, repeats), round-robin or with one goroutine per request, by name or by share public key, via service or gRPC handler. '
                'Every returned partial signature is verified under the share key of its instance; both duties collecting >= t valid partials is the violation; a duty with >= t partials must recover '
                'to a signature valid under the composite key.'),
    level_note='Trusts herumi BLS. The argument that makes the property hold (t > n/2 plus per-instance slashing protection) is not assumed by the oracle, which only counts signatures.',
    parts=[part('TestC14', 120, 1500, qshards=4)],
    rule=('a case is one generated account plus one routed conflicting pair; non-trivial iff the account was generated and both duties were offered to at least t instances each; distinct = sha256 of the case JSON'),
    essential=['both-duties-offered-to-a-threshold-of-instances', 'one-duty-reached-threshold', 'concurrent-delivery', 'conflict-double-vote', 'conflict-a-surrounds-b',
               'conflict-b-surrounds-a', 'conflict-two-blocks', 'generation-refused', 'instance-reached-over-single-and-batch-calls', 'instance-restarted-between-deliveries'],
    assumptions=['herumi BLS is trusted'],
)

CHECKS['C10'] = dict(
    pkg='c10', level='exploration', needs_dirk=True,
    technique='model-based property testing through the real dirk binary: rapid-generated histories of own signing, interchange-file imports (grammar with repeated keys in the same or a different hex spelling, mixed newer/older fields, malformed numbers/keys, wrong metadata) and restarts; oracle per-key floor model + monotone export',
    level_text=('State machine over one storage directory: own approved history through the real rules service, `dirk --import-slashing-protection` runs of the freshly built binary on '
                'generated interchange files (1-4 entries over 3 keys so that repeats are common, 0-3 blocks and attestations each with numbers below/equal/above the current floors per field, '
                'malformed numbers and keys, metadata variants), restarts. After every import that exits 0 on a well-formed file every key is probed through the rules service: a proposal '
                'at or below the highest slot on record (own history or any successfully imported file) and attestations at or below the highest target / below the highest source must be refused. '
                'After every step the export is component-wise >= the previous one; files with a wrong version, a different root or no metadata must exit non-zero and change nothing.'),
    level_note='For files with malformed numbers or keys only "never lowered" is required (the statement asks nothing more). The binary is rebuilt from /repo with -tags verif for every run.',
    parts=[part('TestC10', 120, 1200, qshards=4)],
    rule=('a case is a history of 1-10 steps; non-trivial iff some successfully imported well-formed entry was newer than the database in one field and older in another, or a file named one key twice; '
          'distinct = sha256 of the case JSON'),
    essential=['imports-exit-0-wellformed', 'entry-newer-in-one-field-older-in-another', 'file-names-a-key-twice', 'metadata-rejections', 'malformed-file-submitted',
               'first-import-into-empty-db', 'import-after-restart', 'probes', 'file-with-value>=2^63-1'],
    assumptions=['the interchange merge logic lives in package main and is reached only through the binary'],
)

CHECKS['C11'] = dict(
    pkg='c10', level='exploration', needs_dirk=True,
    technique='property-based testing: rapid-generated signing histories, oracle export == maxima of approved requests, round trip (rules API and real CLI files) into an empty twin with differential probing, restart, and stores pre-populated with old-format gob records',
    level_text=('Histories of advancing and refused attestation/proposal requests over 1-3 keys (one key restricted to a single kind) through the real rules service; the rules-level export and '
                '`dirk --export-slashing-protection` (stdout and file) must state exactly the highest approved slot/source/target per key that signed; the export is imported into an empty instance '
                '(rules API, or the binary importing the binary\'s own export file) and both twins answer a probe sequence around the watermarks identically, ending in identical state; a clean '
                'shutdown and reopen leaves the export unchanged. Stores written with gob encodings of the old record structs (values 0, 1, 127, 128, 255, 256, 65535, 2^31, 2^62+5, random) '
                'must export those values, refuse at/below them and approve advancing requests. Thorough tier only: round trips of exports larger than one badger transaction (more than 104,857 records).'),
    level_note='Keys that never signed are not constrained (the batch path legitimately writes "none" records); all-minus-one entries are dropped before comparing exports.',
    parts=[part('TestC11', 250, 2500, qshards=2), part('TestC11Legacy', 150, 1500, qshards=1, tshards=4),
           part('TestC11Big', 0, 2, qshards=1, tshards=4, shrinktime='5s')],  # 0 = not run in that tier (one case takes ~25 s)
    rule=('history cases are non-trivial iff >= 2 keys signed, one of them only proposals or only attestations, and some probe was refused on both twins; legacy cases iff a stored value is non-zero; large-export cases (TestC11Big, thorough tier only: 104,857-109,000 signing keys) iff the export holds > 104,857 records and a probe was refused on both twins; '
          'distinct = sha256 of the case JSON'),
    essential=['round-trip-through-cli-files', 'round-trip-through-rules-api', 'probes-refused-on-both-twins', 'probes-approved-on-both-twins',
               'keys-with-only-proposals-or-only-attestations', 'legacy-non-zero-value', 'legacy-zero-value'],
    assumptions=['old-format records are gob encodings of struct{SourceEpoch,TargetEpoch int64} / struct{Slot int64}, as the Decode fallback reads them'],
)

CHECKS['C18'] = dict(
    pkg='c18', level='exploration',
    technique='model-based property testing: rapid-generated wallet/account populations, permission configurations from the regex AST grammar, path lists and run-time account creation (single and distributed); oracle L subset-of returned subset-of U from the reference permission model, names and keys against ground truth',
    level_text=('Each case builds a two-instance cluster whose first instance has 1-3 non-deterministic wallets with 0-8 accounts (names over the C07 alphabet) and a distributed wallet, a generated '
                'permission configuration with per-account patterns and mixed Access account / ~Access account / None / All items, and runs up to 8 actions: list(client, 1-4 paths: wallet only, '
                'wallet/pattern from the AST grammar, trailing slash, unknown wallet, empty string, "/x", invalid expression, wrong-case wallet) through the service or the gRPC handler, '
                'create (real single-participant generation) and create-distributed (real 2-of-2 key generation). Every returned account must lie in a requested wallet and be accessible by the '
                'reference evaluator (U); every accessible account whose name whole-matches a requested pattern (own AST matcher, case-sensitive) must be returned (L); names, public keys, '
                'share and composite keys must equal what creation returned, immediately after creation.'),
    level_note='Over-matching of a path pattern (e.g. the lister\'s partial anchoring of alternations, case) is allowed by the statement as long as the account is accessible; only L subset-of returned subset-of U is asserted.',
    parts=[part('TestC18', 200, 2000, qshards=2)],
    rule=('a case is a population + configuration + 1-8 actions; non-trivial iff some listing had a non-empty L while the client could not access every account of the named wallets, or a non-empty listing '
          'followed a run-time creation; distinct = sha256 of the case JSON'),
    essential=['listings', 'accounts-returned', 'listings-with-partial-access', 'listings-after-dynamic-creation', 'accounts-created-at-run-time', 'distributed-accounts-created-at-run-time'],
    assumptions=['ASCII names only'],
)

CHECKS['C19'] = dict(
    pkg='c19', level='exploration',
    technique='property-based testing over real TLS on 127.0.0.1: rapid-generated (RPC method from the service descriptors, caller credential: transport x issuer x validity x EKU x CN x SAN) against a daemon assembled with grpcapi.New; oracle nothing of value / no state change for callers without a configured-CA certificate, decisions by the verified subject CN for served callers',
    level_text=('A daemon built exactly like testing/daemon (same constructors, grpcapi.New with server certificate and CA) with harness-minted ECDSA certificates listens on 127.0.0.1. Each call uses a fresh '
                'connection with a generated credential - plaintext, TLS without client certificate, or a client certificate issued by the configured CA / another CA / itself, valid / expired / not yet '
                'valid, clientAuth / serverAuth-only / no EKU, CN in {permitted clients, refused client, peer, unknown, empty} with an independent SAN - and invokes a method drawn from the descriptors of all '
                'five registered services with a valid request body. Must-refuse callers (no certificate from the configured CA) may receive no signature, account list, generated key or share, and '
                'slashing-protection records, lock states, wallet contents and the key-generation session table must be unchanged. Any caller that is served is held to the reference permission model '
                'evaluated on the certificate subject CN (SAN must not matter); key-generation messages succeed only for a peer CN.'),
    level_note='The TLS library is trusted; what is exercised is configuration (client-auth mode, CA pool) and identity extraction. Certificates are minted relative to the current time with +-1 h / +-24 h windows.',
    parts=[part('TestC19', 500, 5000, qshards=2)],
    rule=('a case is 1-4 calls on fresh connections; non-trivial iff it contains a must-refuse call bearing a permitted or peer name, or a served call whose CN and SAN differ; distinct = sha256 of the case JSON'),
    essential=['calls-that-must-be-refused', 'must-refuse-calls-bearing-a-permitted-name', 'accepted-credential-served', 'served-calls-with-cn-and-san-differing', 'served-calls-with-an-extra-certificate-naming-someone-else', 'served-calls-claiming-another-name-in-metadata',
               'cred:plaintext/ca', 'cred:tls-no-cert/ca', 'cred:tls-cert/other-ca', 'cred:tls-cert/self-signed', 'cred:tls-cert/ca'] +
              ['method:' + m for m in ['Signer/Sign', 'Signer/Multisign', 'Signer/SignBeaconAttestation', 'Signer/SignBeaconAttestations', 'Signer/SignBeaconProposal', 'Lister/ListAccounts',
               'AccountManager/Unlock', 'AccountManager/Lock', 'AccountManager/Generate', 'WalletManager/Unlock', 'WalletManager/Lock', 'DKG/Prepare', 'DKG/Execute', 'DKG/Commit', 'DKG/Abort', 'DKG/Contribute']],
    assumptions=['crypto/tls and grpc-go are trusted', 'one daemon per test process; calls are judged by before/after probes of its state'],
)

CHECKS['C20'] = dict(
    pkg='c20', level='exploration',
    technique='structure-aware fuzzing: rapid-generated wire requests (hostile field lengths, absent sub-messages, numeric extremes, empty/2000-entry batches, malformed paths) against a crash-isolated instance with a 16 GiB address-space ceiling and a canary client; native go test -fuzz on the same decoder in the thorough tier',
    level_text=('Sequences of 1-10 requests over all methods of the Signer, Lister, AccountManager and WalletManager handlers (as an authenticated client) and the five key-generation handlers (as a '
                'non-peer) are built field by field from hostile choices, marshalled to wire bytes and sent to a child process that unmarshals them and calls the real handlers of a real instance '
                '(real rules store, wallets, a second instance as key-generation peer). The child runs under RLIMIT_AS = 16 GiB. Oracle: the child stays alive, every handler returns a response or an error, '
                'and after each case a second client can still list and sign correctly. The thorough tier adds coverage-guided native fuzzing over the same structured space.'),
    level_note='Native fuzzing cannot be pinned to a seed; its saved crasher is the reproducible unit. A child death is reported with the top of the Go crash report.',
    parts=[part('TestC20', 250, 3000, qshards=2), dict(test='FuzzC20', fuzz='FuzzC20', replay_test='TestC20FuzzReplay', quick=dict(seconds=0), thorough=dict(seconds=180))],
    rule=('a case is a sequence of 1-10 wire requests; non-trivial iff a request with at least one field outside the well-formed envelope got past the handler\'s own validation '
          '(answer other than the early-exit DENIED or an error); distinct = sha256 of the case JSON'),
    essential=['hostile-requests-that-reached-service-code', 'requests-sent-in-parallel'] + ['method:' + m for m in ['Signer/Sign', 'Signer/Multisign', 'Signer/SignBeaconAttestation', 'Signer/SignBeaconAttestations',
               'Signer/SignBeaconProposal', 'Lister/ListAccounts', 'AccountManager/Unlock', 'AccountManager/Lock', 'AccountManager/Generate', 'WalletManager/Unlock', 'WalletManager/Lock',
               'DKG/Prepare', 'DKG/Execute', 'DKG/Commit', 'DKG/Abort', 'DKG/Contribute']],
    assumptions=['requests reach the handlers as the protobuf decoder would deliver them (wire round trip)', 'authenticated identity injected through the interceptor context key'],
)

# ---- the end-to-end part -------------------------------------------------------------------------
# The same generator runs for each of these properties; VERIF_PROPERTY selects which kinds of
# violation a run reports (every kind belongs to exactly one property, see harness/e2e propertyOf).
E2E_KINDS = {
    'C01': 'a released attestation that is slashable against an earlier release',
    'C02': 'a released proposal at or below an earlier released slot',
    'C03': 'a slashable release after the daemon was killed or terminated and restarted',
    'C05': 'a generic signature under the attester/proposer type, a protected endpoint signing another type, an exit signed for a non-administrator address',
    'C06': 'a response whose state and signature disagree',
    'C07': 'a signature for a (client, account, operation) the configured permissions refuse',
    'C08': 'a signature that does not verify under the addressed account over the submitted data, or a batch answer of the wrong length',
    'C09': 'a permitted, well-formed, advancing duty that is not signed (in batches: when every entry is authorised)',
    'C18': 'a listing that is not exactly the accessible accounts of the requested wallets',
    'C19': 'a signature or account information for a caller with no certificate or one from another authority',
    'C20': 'the daemon process dying',
}
for _pid, _what in E2E_KINDS.items():
    _c = CHECKS[_pid]
    _c['parts'].append(part('TestE2E', 25, 300, qshards=8, tshards=16, pkg='e2e', needs_dirk=True))
    _c['technique'] += ('; plus an end-to-end part: rapid-generated histories against the real dirk binary started from a generated configuration file '
                        '(permissions, administrator addresses, filesystem wallets, certificates), driven over gRPC with mutual TLS, with SIGKILL/SIGTERM restarts')
    _c['rule'] += ('; end-to-end cases (3-12 steps against one daemon) are non-trivial iff the daemon both released and refused something; here that part reports: ' + _what)
    _c['essential'] = list(_c['essential']) + ['e2e:signatures-released-by-the-daemon', 'e2e:requests-refused-by-the-daemon', 'e2e:daemon-restarts']
    _c['assumptions'] = list(_c['assumptions']) + ['end-to-end part: every client\'s permission entries cover disjoint accounts, because the configuration file is a map and does not fix their order']

E2E_DKG_KINDS = {
    'C12': 'a generation between real daemons that reports success while the participants list different composite keys, thresholds or participants, or whose shares do not recover under the composite key, or whose account cannot be used at once',
    'C14': 'two conflicting duties both collecting a threshold of partial signatures from the daemons',
    'C16': 'a key-generation message from an ordinary client answered without error',
    'C20': 'a daemon of the cluster dying during a generation, a rogue message, the use of the new account or the conflicting duties',
    'C17': 'with a configured generation timeout of 2 s and the harness speaking as a peer: a second prepare accepted while one is active, a message accepted after the timeout, or a new prepare refused after it',
}
for _pid, _what in E2E_DKG_KINDS.items():
    _c = CHECKS[_pid]
    _c['parts'].append(part('TestE2EDKG', 20, 300, qshards=4, tshards=8, pkg='e2e', needs_dirk=True))
    _c['technique'] += ('; plus an end-to-end part: rapid-generated key generations between 2-4 real dirk daemons on loopback addresses (real sender, receiver, peers configuration and certificates), '
                        'followed by listing, threshold recovery, routed conflicting duties and a SIGKILL restart of a participant')
    _c['rule'] += ('; end-to-end cases (one generation between daemons and its use) are non-trivial iff the generation succeeded; here that part reports: ' + _what)
    _c['essential'] = list(_c['essential']) + ['e2e:generation-between-daemons-succeeded', 'e2e:generation-between-daemons-refused']

ENGINES = [
    dict(name='rapid-harness', path='/verif/harness', kind_free_text='Go test module (pgregory.net/rapid v1.3.0) compiled against /repo with -tags verif; driver /verif/check shards by seed, merges coverage, writes evidence',
         serves_properties=sorted(CHECKS)),
]

NOT_APPLICABLE = [dict(property_id=p, reason='check not built yet (work in progress; see DESIGN.md section 3 for the planned check)')
                  for p in ['C%02d' % i for i in range(1, 21)] if p not in CHECKS]
