#!/usr/bin/env python3
"""Regenerate harness/go.mod and go.sum from the repository under test (DESIGN 1.2)."""
import os, re, sys

def gen(repo, harness):
    src = open(os.path.join(repo, 'go.mod')).read()
    lines = src.splitlines()
    out = []
    for l in lines:
        if l.startswith('module '):
            out.append('module verif/harness')
        elif l.startswith('toolchain '):
            continue
        else:
            out.append(l)
    out.append('')
    out.append('require pgregory.net/rapid v1.3.0')
    out.append('require github.com/attestantio/dirk v0.0.0')
    out.append('replace github.com/attestantio/dirk => ' + repo)
    out.append('')
    new = '\n'.join(out)
    p = os.path.join(harness, 'go.mod')
    if not os.path.exists(p) or open(p).read() != new:
        open(p, 'w').write(new)
    s = open(os.path.join(repo, 'go.sum')).read()
    extra = ('pgregory.net/rapid v1.3.0 h1:%s\npgregory.net/rapid v1.3.0/go.mod h1:%s\n')
    # hashes are taken from the module cache, never from the network
    import glob
    modcache = os.environ.get('GOMODCACHE') or os.path.expanduser('~/go/pkg/mod')
    base = os.path.join(modcache, 'cache/download/pgregory.net/rapid/@v')
    zh = open(os.path.join(base, 'v1.3.0.ziphash')).read().strip()
    add = 'pgregory.net/rapid v1.3.0 %s\n' % zh
    if 'pgregory.net/rapid v1.3.0 ' not in s:
        s += add
    p = os.path.join(harness, 'go.sum')
    if not os.path.exists(p) or open(p).read() != s:
        open(p, 'w').write(s)

if __name__ == '__main__':
    gen(sys.argv[1] if len(sys.argv) > 1 else '/repo', os.path.join(os.path.dirname(os.path.abspath(__file__)), 'harness'))
