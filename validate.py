#!/usr/bin/env python3
"""Validate MANIFEST.json and evidence files against the schemas (needs jsonschema: use python3-vt)."""
import json, glob, sys, jsonschema
jsonschema.validate(json.load(open('MANIFEST.json')), json.load(open('/root/.vp/MANIFEST.schema.json')))
print('manifest ok')
sch = json.load(open('/root/.vp/EVIDENCE.schema.json'))
for f in sorted(glob.glob('evidence/*.json')):
    jsonschema.validate(json.load(open(f)), sch)
    print(f, 'ok')
