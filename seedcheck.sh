#!/bin/bash
# usage: seedcheck.sh <seed-dir-with-patch.diff-and-demo> <name> <IDs comma-separated> [tier]
# Confirms a seeded change in a scratch worktree (applies, builds, existing tests of touched packages pass, demo fails
# with / passes without the change), then runs the given checks against it. Prints one line per step.
src=$(readlink -f "$1"); name=$2; ids=$3; tier=${4:-quick}
export GOFLAGS=-mod=mod GOPROXY=off GOSUMDB=off GOTOOLCHAIN=local
W=/tmp/seedchk-$name-$$
git -C /repo worktree add -q --detach "$W" HEAD || exit 2
trap 'git -C /repo worktree remove --force "$W" >/dev/null 2>&1; rm -rf "$W" /tmp/seedout-$name-$$' EXIT
demo=$(ls "$src" | grep -E '_test\.go$' | head -1)
democmd=$(cat "$src/demo_cmd.txt" 2>/dev/null | grep -E "go (test|run)" | head -1 | sed 's/^.*&& *//; s/^export [^;&]*[;&]* *//')
demodir=$(grep -oE '\./[A-Za-z0-9_/.-]+' <<<"$democmd" | head -1)
[ -z "$demodir" ] && demodir=.
[ -n "$demo" ] && cp "$src/$demo" "$W/$demodir/"
if [ -n "$SEEDCHECK_FAST" ]; then
  # regression mode: only apply, build and run the checks
  ( cd "$W" && git apply "$src/patch.diff" ) || { echo "SEED $name: patch does not apply"; exit 2; }
  ( cd "$W" && go build ./... ) || { echo "SEED $name: does not build"; exit 2; }
  for id in ${ids//,/ }; do
    out=$(VERIF_REPO="$W" VERIF_OUT=/tmp/seedout-$name-$$ /verif/check "$id" --tier "$tier" 2>/tmp/seedout-$name-$$.err); rc=$?
    echo "SEED $name check $id rc=$rc $(echo "$out" | head -1 | cut -c1-200)"
  done
  rm -f /tmp/seedout-$name-$$.*
  exit 0
fi
( cd "$W" && eval "$democmd" >/tmp/seedout-$name-$$.pre 2>&1 ); pre=$?
( cd "$W" && git apply "$src/patch.diff" ) || { echo "SEED $name: patch does not apply"; exit 2; }
( cd "$W" && go build ./... ) || { echo "SEED $name: does not build"; exit 2; }
( cd "$W" && eval "$democmd" >/tmp/seedout-$name-$$.post 2>&1 ); post=$?
echo "SEED $name demo: without change rc=$pre, with change rc=$post  ($democmd)"
[ -n "$demo" ] && rm -f "$W/$demodir/$demo"
pkgs=$(cd "$W" && git diff --name-only | xargs -n1 dirname | sort -u | sed 's#^#./#' | tr '\n' ' ')
( cd "$W" && go test -count=1 -vet=off ./... 2>&1 | grep -E "^\s*--- FAIL" | grep -v "TestRules" | head -5 ) > /tmp/seedout-$name-$$.suite
if [ -s /tmp/seedout-$name-$$.suite ]; then echo "SEED $name: existing suite FAILS:"; cat /tmp/seedout-$name-$$.suite; else echo "SEED $name: existing suite passes (apart from the known TestRules/PathDisallowed)"; fi
for id in ${ids//,/ }; do
  out=$(VERIF_REPO="$W" VERIF_OUT=/tmp/seedout-$name-$$ /verif/check "$id" --tier "$tier" 2>/tmp/seedout-$name-$$.err); rc=$?
  echo "SEED $name check $id rc=$rc $(echo "$out" | head -1 | cut -c1-330)"
  [ $rc = 2 ] && tail -3 /tmp/seedout-$name-$$.err
done
rm -f /tmp/seedout-$name-$$.*
