// Package c09 decides C09: (a) valid advancing duties are signed, (b) a batch gives the same verdicts
// as its entries one at a time, (c) util.Scatter partitions [0,n) exactly.
package c09

import (
	"encoding/binary"
	"encoding/json"
	"fmt"
	"reflect"
	"runtime"
	"sort"
	"sync"
	"testing"
	"time"

	memfetcher "github.com/attestantio/dirk/services/fetcher/mem"
	"github.com/attestantio/dirk/util"
	"pgregory.net/rapid"

	"verif/harness/vkit"
)

const (
	nKeys  = 420
	client = "client1"
)

var (
	once    sync.Once
	world   *vkit.World
	fetcher *memfetcher.Service
	initErr error
)

func setup() error {
	once.Do(func() {
		world, initErr = vkit.SimpleWorld(nKeys)
		if initErr != nil {
			return
		}
		fetcher, initErr = vkit.NewFetcher(world)
	})

	return initErr
}

func root(u uint64, salt byte) []byte {
	b := make([]byte, 32)
	binary.LittleEndian.PutUint64(b[:8], u)
	b[31] = salt

	return b
}

func attDomain(v bool) []byte {
	d := make([]byte, 32)
	d[0] = 1
	if v {
		d[17] = 0x5a
	}

	return d
}

func propDomain() []byte { return make([]byte, 32) }

// ---------------------------------------------------------------------------------------------
// (a) liveness of valid advancing duties

// Entry is one duty.
type Entry struct {
	Key   int        `json:"key"`
	ByKey bool       `json:"by_key,omitempty"`
	Att   *vkit.Att  `json:"att,omitempty"`
	Prop  *vkit.Prop `json:"prop,omitempty"`
}

// Step is one action.
type Step struct {
	Kind    string  `json:"kind"` // attest | batch | propose | restart
	ViaGRPC bool    `json:"via_grpc,omitempty"`
	Entries []Entry `json:"entries,omitempty"`
}

// LiveCase is a history of valid advancing duties.
type LiveCase struct {
	Procs int    `json:"gomaxprocs"`
	Steps []Step `json:"steps"`
}

type liveGen struct {
	m    *vkit.Model
	uniq uint64
}

func keyName(k int) string { return fmt.Sprintf("k%d", k) }

// advancingAtt draws an attestation that the statement says must be signed, relative to the model.
func (g *liveGen) advancingAtt(t *rapid.T, key int) (*vkit.Att, string) {
	g.uniq++
	w := g.m.Keys[keyName(key)]
	var src, tgt uint64
	class := ""
	if w == nil || !w.HasAtt {
		switch rapid.IntRange(0, 4).Draw(t, "first") {
		case 0:
			src, tgt, class = 0, 0, "genesis-0/0"
		case 1:
			src, tgt = 0, 1
		case 2:
			src, tgt, class = 1<<63-3, 1<<63-2, "near-2^63"
		default:
			src = rapid.Uint64Range(0, 1<<40).Draw(t, "src0")
			tgt = src + rapid.Uint64Range(1, 1000).Draw(t, "tgtd0")
		}
	} else {
		if w.Tgt >= 1<<63-1 {
			return nil, "" // nothing can advance past the largest representable target
		}
		if rapid.IntRange(0, 9).Draw(t, "eqsrc") < 4 {
			src, class = w.Src, "equal-source"
		} else {
			src = w.Src + rapid.SampledFrom([]uint64{1, 2, 50}).Draw(t, "srcd")
		}
		tgt = w.Tgt + rapid.SampledFrom([]uint64{1, 1, 2, 100}).Draw(t, "tgtd")
		if rapid.IntRange(0, 19).Draw(t, "jump") == 0 {
			tgt, class = 1<<63-1, "near-2^63"
		}
		if tgt > 1<<63-1 {
			tgt = 1<<63 - 1
		}
		if src >= tgt {
			src = w.Src
		}
		if src >= tgt {
			return nil, ""
		}
	}
	a := &vkit.Att{Slot: g.uniq, Index: 1, BlockRoot: root(g.uniq, 1), SrcEpoch: src, SrcRoot: root(g.uniq, 2), TgtEpoch: tgt, TgtRoot: root(g.uniq, 3), Domain: attDomain(rapid.Bool().Draw(t, "dom"))}
	if !g.m.ApplyAtt(keyName(key), a) {
		panic("generator bug: model refuses an advancing attestation")
	}

	return a, class
}

func (g *liveGen) advancingProp(t *rapid.T, key int) *vkit.Prop {
	g.uniq++
	w := g.m.Keys[keyName(key)]
	var slot uint64
	if w == nil || !w.HasPro {
		slot = rapid.SampledFrom([]uint64{0, 1, 5, 1 << 50}).Draw(t, "slot0")
	} else {
		if w.Slot >= 1<<63-1 {
			return nil
		}
		slot = w.Slot + rapid.SampledFrom([]uint64{1, 1, 3, 1 << 20}).Draw(t, "slotd")
		if slot > 1<<63-1 {
			slot = 1<<63 - 1
		}
	}
	p := &vkit.Prop{Slot: slot, ProposerIndex: g.uniq, ParentRoot: root(g.uniq, 4), StateRoot: root(g.uniq, 5), BodyRoot: root(g.uniq, 6), Domain: propDomain()}
	if !g.m.ApplyProp(keyName(key), p) {
		panic("generator bug: model refuses an advancing proposal")
	}

	return p
}

func genLive(t *rapid.T) (*LiveCase, map[string]int) {
	classes := map[string]int{}
	c := &LiveCase{Procs: rapid.IntRange(1, 16).Draw(t, "gomaxprocs")}
	g := &liveGen{m: vkit.NewModel()}
	nk := rapid.IntRange(1, 8).Draw(t, "nkeys")
	n := rapid.IntRange(1, 30).Draw(t, "nsteps")
	for i := 0; i < n; i++ {
		k := rapid.IntRange(0, 99).Draw(t, "kind")
		switch {
		case k < 45:
			key := rapid.IntRange(0, nk-1).Draw(t, "key")
			a, cl := g.advancingAtt(t, key)
			if a == nil {
				continue
			}
			if cl != "" {
				classes[cl]++
			}
			c.Steps = append(c.Steps, Step{Kind: "attest", ViaGRPC: rapid.Bool().Draw(t, "grpc"), Entries: []Entry{{Key: key, ByKey: rapid.Bool().Draw(t, "bykey"), Att: a}}})
		case k < 70:
			s := Step{Kind: "batch", ViaGRPC: rapid.Bool().Draw(t, "grpc")}
			for key := 0; key < nk; key++ {
				if !rapid.Bool().Draw(t, "inbatch") {
					continue
				}
				a, cl := g.advancingAtt(t, key)
				if a == nil {
					continue
				}
				if cl != "" {
					classes[cl]++
				}
				s.Entries = append(s.Entries, Entry{Key: key, ByKey: rapid.Bool().Draw(t, "bykey"), Att: a})
			}
			if len(s.Entries) == 0 {
				continue
			}
			// batches may list keys in any order
			if rapid.Bool().Draw(t, "reverse") {
				for l, r := 0, len(s.Entries)-1; l < r; l, r = l+1, r-1 {
					s.Entries[l], s.Entries[r] = s.Entries[r], s.Entries[l]
				}
			}
			c.Steps = append(c.Steps, s)
		case k < 88:
			key := rapid.IntRange(0, nk-1).Draw(t, "key")
			p := g.advancingProp(t, key)
			if p == nil {
				continue
			}
			c.Steps = append(c.Steps, Step{Kind: "propose", ViaGRPC: rapid.Bool().Draw(t, "grpc"), Entries: []Entry{{Key: key, ByKey: rapid.Bool().Draw(t, "bykey"), Prop: p}}})
		default:
			c.Steps = append(c.Steps, Step{Kind: "restart"})
		}
	}

	return c, classes
}

func runLive(c *LiveCase) (map[string]bool, *vkit.Violation, error) {
	if err := setup(); err != nil {
		return nil, nil, err
	}
	old := runtime.GOMAXPROCS(c.Procs)
	defer runtime.GOMAXPROCS(old)
	st, err := vkit.NewStack(vkit.StackOpts{World: world, SharedFetcher: fetcher, Permissions: vkit.AllPermissions(client)})
	if err != nil {
		return nil, nil, err
	}
	defer st.Close()
	seen := map[string]bool{}
	for si, s := range c.Steps {
		switch s.Kind {
		case "restart":
			seen["restart"] = true
			if err := st.Restart(); err != nil {
				return seen, nil, err
			}
		case "attest":
			e := s.Entries[0]
			r := st.Attest(client, "", vkit.TargetOf(world.Accounts[e.Key], e.ByKey), s.ViaGRPC, e.Att)
			if !r.OK() || !r.Released() {
				return seen, vkit.Violf("advancing-attestation-not-signed", "step %d: attestation (%d,%d) for key %d answered %s", si, e.Att.SrcEpoch, e.Att.TgtEpoch, e.Key, r.State), nil
			}
			if err := vkit.VerifySig(world.Accounts[e.Key].PubKey, vkit.SigningRoot(vkit.AttDataRoot(e.Att), e.Att.Domain), r.Sig); err != nil {
				return seen, vkit.Violf("advancing-attestation-bad-signature", "step %d: %v", si, err), nil
			}
		case "batch":
			seen["batch"] = true
			ts := make([]vkit.Target, len(s.Entries))
			as := make([]*vkit.Att, len(s.Entries))
			for i, e := range s.Entries {
				ts[i] = vkit.TargetOf(world.Accounts[e.Key], e.ByKey)
				as[i] = e.Att
			}
			rs := st.AttestBatch(client, "", ts, s.ViaGRPC, as)
			if len(rs) != len(s.Entries) {
				return seen, vkit.Violf("batch-length", "step %d: %d results for %d entries", si, len(rs), len(s.Entries)), nil
			}
			for i, r := range rs {
				e := s.Entries[i]
				if !r.OK() || !r.Released() {
					return seen, vkit.Violf("advancing-attestation-not-signed.batch", "step %d position %d/%d: attestation (%d,%d) for key %d answered %s", si, i, len(rs), e.Att.SrcEpoch, e.Att.TgtEpoch, e.Key, r.State), nil
				}
				if err := vkit.VerifySig(world.Accounts[e.Key].PubKey, vkit.SigningRoot(vkit.AttDataRoot(e.Att), e.Att.Domain), r.Sig); err != nil {
					return seen, vkit.Violf("advancing-attestation-bad-signature", "step %d position %d: %v", si, i, err), nil
				}
			}
		case "propose":
			e := s.Entries[0]
			r := st.Propose(client, "", vkit.TargetOf(world.Accounts[e.Key], e.ByKey), s.ViaGRPC, e.Prop)
			if !r.OK() || !r.Released() {
				return seen, vkit.Violf("advancing-proposal-not-signed", "step %d: proposal at slot %d for key %d answered %s", si, e.Prop.Slot, e.Key, r.State), nil
			}
			if err := vkit.VerifySig(world.Accounts[e.Key].PubKey, vkit.SigningRoot(vkit.PropDataRoot(e.Prop), e.Prop.Domain), r.Sig); err != nil {
				return seen, vkit.Violf("advancing-proposal-bad-signature", "step %d: %v", si, err), nil
			}
		}
	}

	return seen, nil, nil
}

// TestC09Live is part (a).
func TestC09Live(t *testing.T) {
	defer vkit.Flush()
	for _, r := range vkit.ReplayFiles("TestC09Live") {
		var c LiveCase
		if err := json.Unmarshal(r.Case, &c); err != nil {
			t.Fatalf("bad replay case: %v", err)
		}
		stopR := vkit.WatchLive("C09", "TestC09Live", &c, 60*time.Second, "harness/c09.")
		_, v, err := runLive(&c)
		stopR()
		if err != nil {
			t.Fatalf("replay infrastructure error: %v", err)
		}
		vkit.Report(t, "C09", "TestC09Live", &c, v)
	}
	if vkit.ReplayOnly() {
		return
	}
	rapid.Check(t, func(rt *rapid.T) {
		c, classes := genLive(rt)
		if len(c.Steps) == 0 {
			return
		}
		stop := vkit.WatchLive("C09", "TestC09Live", c, 120*time.Second, "harness/c09.")
		seen, v, err := runLive(c)
		stop()
		if err != nil {
			rt.Fatalf("INFRA: %v", err)
		}
		vkit.S.Eval()
		for k, n := range classes {
			vkit.S.ClassN("live:"+k, n)
		}
		for k := range seen {
			vkit.S.Class("live:has-" + k)
		}
		nt := classes["equal-source"] > 0 && (seen["restart"] || seen["batch"])
		if nt {
			vkit.S.Nontrivial(c)
		}
		vkit.S.Sample(c, nt && seen["restart"] && seen["batch"])
		vkit.Report(rt, "C09", "TestC09Live", c, v)
	})
}

// ---------------------------------------------------------------------------------------------
// (b) batch == one at a time

// DiffCase is a prefix history applied to both twins, then one batch.
type DiffCase struct {
	Procs  int     `json:"gomaxprocs"`
	Prefix []Entry `json:"prefix"`
	Batch  []Entry `json:"batch"`
	GRPCA  bool    `json:"batch_via_grpc"`
	GRPCB  bool    `json:"singles_via_grpc"`
}

func genDiff(t *rapid.T) *DiffCase {
	c := &DiffCase{Procs: rapid.IntRange(1, 16).Draw(t, "gomaxprocs"), GRPCA: rapid.Bool().Draw(t, "grpcA"), GRPCB: rapid.Bool().Draw(t, "grpcB")}
	var n int
	switch k := rapid.IntRange(0, 9).Draw(t, "size_class"); {
	case k < 5:
		n = rapid.IntRange(2, 12).Draw(t, "n")
	case k < 8:
		n = rapid.SampledFrom([]int{c.Procs - 1, c.Procs, c.Procs + 1, 2*c.Procs + 1, 3*c.Procs - 1}).Draw(t, "n")
		if n < 2 {
			n = 2
		}
	default:
		n = rapid.IntRange(13, 400).Draw(t, "n")
	}
	start := rapid.IntRange(0, nKeys-1).Draw(t, "kstart")
	stride := rapid.SampledFrom([]int{1, 11, 13, 17}).Draw(t, "kstride") // coprime with 420
	m := vkit.NewModel()
	var uniq uint64
	mk := func(src, tgt uint64) *vkit.Att {
		uniq++

		return &vkit.Att{Slot: uniq, Index: 2, BlockRoot: root(uniq, 1), SrcEpoch: src, SrcRoot: root(uniq, 2), TgtEpoch: tgt, TgtRoot: root(uniq, 3), Domain: attDomain(false)}
	}
	for j := 0; j < n; j++ {
		key := (start + j*stride) % nKeys
		// prefix: 0-2 earlier attestations for this key (same on both twins)
		np := rapid.SampledFrom([]int{0, 1, 1, 2}).Draw(t, "nprefix")
		for q := 0; q < np; q++ {
			w := m.Keys[keyName(key)]
			var src, tgt uint64
			if w == nil || !w.HasAtt {
				src = rapid.Uint64Range(0, 8).Draw(t, "psrc")
				tgt = src + rapid.Uint64Range(1, 4).Draw(t, "ptgtd")
			} else {
				src = w.Src + rapid.Uint64Range(0, 2).Draw(t, "psrcd")
				tgt = w.Tgt + rapid.Uint64Range(1, 3).Draw(t, "ptgtd")
			}
			a := mk(src, tgt)
			m.ApplyAtt(keyName(key), a)
			c.Prefix = append(c.Prefix, Entry{Key: key, Att: a})
		}
		// batch entry: drawn relative to the watermark, in every direction
		w := m.Keys[keyName(key)]
		var bs, bt uint64
		if w != nil && w.HasAtt {
			bs = uint64(int64(w.Src) + int64(rapid.IntRange(-2, 2).Draw(t, "bsd")))
			bt = uint64(int64(w.Tgt) + int64(rapid.IntRange(-2, 3).Draw(t, "btd")))
			if int64(bs) < 0 {
				bs = 0
			}
			if int64(bt) < 0 {
				bt = 0
			}
		} else {
			bs = rapid.Uint64Range(0, 3).Draw(t, "bs0")
			bt = rapid.Uint64Range(0, 4).Draw(t, "bt0")
		}
		c.Batch = append(c.Batch, Entry{Key: key, ByKey: rapid.Bool().Draw(t, "bykey"), Att: mk(bs, bt)})
	}

	return c
}

func states(rs []vkit.Res) []string {
	out := make([]string, len(rs))
	for i, r := range rs {
		out[i] = r.State
		if r.Released() != r.OK() {
			out[i] += "!sigmismatch"
		}
	}

	return out
}

func runDiff(c *DiffCase) (approved, denied int, v *vkit.Violation, err error) {
	if err = setup(); err != nil {
		return
	}
	old := runtime.GOMAXPROCS(c.Procs)
	defer runtime.GOMAXPROCS(old)
	mkStack := func() (*vkit.Stack, error) {
		return vkit.NewStack(vkit.StackOpts{World: world, SharedFetcher: fetcher, Permissions: vkit.AllPermissions(client)})
	}
	a, err := mkStack()
	if err != nil {
		return
	}
	defer a.Close()
	b, err := mkStack()
	if err != nil {
		return
	}
	defer b.Close()
	for i, e := range c.Prefix {
		ra := a.Attest(client, "", vkit.TargetOf(world.Accounts[e.Key], false), false, e.Att)
		rb := b.Attest(client, "", vkit.TargetOf(world.Accounts[e.Key], false), false, e.Att)
		if ra.State != rb.State {
			return 0, 0, vkit.Violf("twin-prefix-divergence", "prefix %d: twins answered %s / %s to the same request", i, ra.State, rb.State), nil
		}
	}
	ts := make([]vkit.Target, len(c.Batch))
	as := make([]*vkit.Att, len(c.Batch))
	for i, e := range c.Batch {
		ts[i] = vkit.TargetOf(world.Accounts[e.Key], e.ByKey)
		as[i] = e.Att
	}
	ra := a.AttestBatch(client, "", ts, c.GRPCA, as)
	rb := make([]vkit.Res, len(c.Batch))
	for i := range c.Batch {
		rb[i] = b.Attest(client, "", ts[i], c.GRPCB, as[i])
	}
	sa, sb := states(ra), states(rb)
	if !reflect.DeepEqual(sa, sb) {
		for i := range sb {
			if i >= len(sa) || sa[i] != sb[i] {
				got := "<missing>"
				if i < len(sa) {
					got = sa[i]
				}

				return 0, 0, vkit.Violf("batch-differs-from-singles", "batch of %d (gomaxprocs %d): position %d (key %d, att %d/%d): batch says %s, one-at-a-time says %s", len(c.Batch), c.Procs, i, c.Batch[i].Key, c.Batch[i].Att.SrcEpoch, c.Batch[i].Att.TgtEpoch, got, sb[i]), nil
			}
		}

		return 0, 0, vkit.Violf("batch-differs-from-singles", "batch returned %d entries for %d requests", len(sa), len(sb)), nil
	}
	for i, r := range ra {
		if r.Released() {
			if err := vkit.VerifySig(world.Accounts[c.Batch[i].Key].PubKey, vkit.SigningRoot(vkit.AttDataRoot(as[i]), as[i].Domain), r.Sig); err != nil {
				return 0, 0, vkit.Violf("batch-bad-signature", "position %d: %v", i, err), nil
			}
			approved++
		} else {
			denied++
		}
	}
	ea, err1 := a.Export()
	eb, err2 := b.Export()
	if err1 != nil || err2 != nil {
		return 0, 0, nil, fmt.Errorf("export: %v %v", err1, err2)
	}
	if !reflect.DeepEqual(ea, eb) {
		keys := []string{}
		for k := range ea {
			if ea[k] != eb[k] {
				keys = append(keys, fmt.Sprintf("%s: batch %v singles %v", k[:8], ea[k], eb[k]))
			}
		}
		for k := range eb {
			if _, ok := ea[k]; !ok {
				keys = append(keys, fmt.Sprintf("%s: batch <none> singles %v", k[:8], eb[k]))
			}
		}
		sort.Strings(keys)
		if len(keys) > 3 {
			keys = keys[:3]
		}

		return 0, 0, vkit.Violf("batch-state-differs-from-singles", "stored state differs after batch vs one-at-a-time: %v", keys), nil
	}

	return approved, denied, nil, nil
}

// TestC09Diff is part (b).
func TestC09Diff(t *testing.T) {
	defer vkit.Flush()
	for _, r := range vkit.ReplayFiles("TestC09Diff") {
		var c DiffCase
		if err := json.Unmarshal(r.Case, &c); err != nil {
			t.Fatalf("bad replay case: %v", err)
		}
		stopR := vkit.WatchLive("C09", "TestC09Diff", &c, 90*time.Second, "harness/c09.")
		_, _, v, err := runDiff(&c)
		stopR()
		if err != nil {
			t.Fatalf("replay infrastructure error: %v", err)
		}
		vkit.Report(t, "C09", "TestC09Diff", &c, v)
	}
	if vkit.ReplayOnly() {
		return
	}
	rapid.Check(t, func(rt *rapid.T) {
		c := genDiff(rt)
		stop := vkit.WatchLive("C09", "TestC09Diff", c, 180*time.Second, "harness/c09.")
		ap, dn, v, err := runDiff(c)
		stop()
		if err != nil {
			rt.Fatalf("INFRA: %v", err)
		}
		vkit.S.Eval()
		vkit.S.ClassN("diff:approved-positions", ap)
		vkit.S.ClassN("diff:denied-positions", dn)
		if len(c.Batch) > c.Procs {
			vkit.S.Class("diff:batch-larger-than-gomaxprocs")
		}
		if len(c.Batch) >= 100 {
			vkit.S.Class("diff:batch>=100")
		}
		nt := ap > 0 && dn > 0
		if nt {
			vkit.S.Nontrivial(c)
			vkit.S.Class("diff:mixed-verdict-batch")
		}
		vkit.S.Sample(map[string]any{"gomaxprocs": c.Procs, "batch_size": len(c.Batch), "prefix_len": len(c.Prefix), "approved": ap, "denied": dn, "first_entries": c.Batch[:min(3, len(c.Batch))]}, nt && len(c.Batch) > 50)
		vkit.Report(rt, "C09", "TestC09Diff", c, v)
	})
}

// ---------------------------------------------------------------------------------------------
// (c) Scatter partitions [0,n)

// ScatterCase is one Scatter invocation.
type ScatterCase struct {
	N     int `json:"n"`
	Procs int `json:"gomaxprocs"`
}

func runScatter(c *ScatterCase) *vkit.Violation {
	old := runtime.GOMAXPROCS(c.Procs)
	defer runtime.GOMAXPROCS(old)
	type ext struct{ off, n int }
	var mu sync.Mutex
	var exts []ext
	res, err := util.Scatter(c.N, func(offset int, entries int, _ *sync.RWMutex) (any, error) {
		mu.Lock()
		exts = append(exts, ext{offset, entries})
		mu.Unlock()

		return offset, nil
	})
	if err != nil {
		return vkit.Violf("scatter-error", "Scatter(%d) with GOMAXPROCS %d: %v", c.N, c.Procs, err)
	}
	sort.Slice(exts, func(i, j int) bool { return exts[i].off < exts[j].off })
	next := 0
	for _, e := range exts {
		if e.n <= 0 {
			return vkit.Violf("scatter-empty-extent", "Scatter(%d) GOMAXPROCS %d: worker with offset %d got %d entries", c.N, c.Procs, e.off, e.n)
		}
		if e.off != next {
			return vkit.Violf("scatter-not-a-partition", "Scatter(%d) GOMAXPROCS %d: extent starts at %d, expected %d (extents %v)", c.N, c.Procs, e.off, next, exts)
		}
		next = e.off + e.n
	}
	if next != c.N {
		return vkit.Violf("scatter-not-a-partition", "Scatter(%d) GOMAXPROCS %d: extents cover [0,%d)", c.N, c.Procs, next)
	}
	if len(res) != len(exts) {
		return vkit.Violf("scatter-results", "Scatter(%d) GOMAXPROCS %d: %d results for %d workers", c.N, c.Procs, len(res), len(exts))
	}
	offs := map[int]bool{}
	for _, r := range res {
		if r == nil {
			return vkit.Violf("scatter-results", "Scatter(%d) GOMAXPROCS %d: nil result", c.N, c.Procs)
		}
		if offs[r.Offset] {
			return vkit.Violf("scatter-results", "Scatter(%d) GOMAXPROCS %d: duplicate result for offset %d", c.N, c.Procs, r.Offset)
		}
		offs[r.Offset] = true
		if v, ok := r.Extent.(int); !ok || v != r.Offset {
			return vkit.Violf("scatter-results", "Scatter(%d) GOMAXPROCS %d: result for offset %d carries %v", c.N, c.Procs, r.Offset, r.Extent)
		}
	}

	return nil
}

// TestC09Scatter is part (c).
func TestC09Scatter(t *testing.T) {
	defer vkit.Flush()
	for _, r := range vkit.ReplayFiles("TestC09Scatter") {
		var c ScatterCase
		if err := json.Unmarshal(r.Case, &c); err != nil {
			t.Fatalf("bad replay case: %v", err)
		}
		stopR := vkit.WatchLive("C09", "TestC09Scatter", &c, 60*time.Second, "harness/c09.")
		vkit.Report(t, "C09", "TestC09Scatter", &c, runScatter(&c))
		stopR()
	}
	if vkit.ReplayOnly() {
		return
	}
	rapid.Check(t, func(rt *rapid.T) {
		c := &ScatterCase{Procs: rapid.IntRange(1, 64).Draw(rt, "gomaxprocs")}
		if rapid.Bool().Draw(rt, "near_multiple") {
			c.N = c.Procs*rapid.IntRange(0, 40).Draw(rt, "mult") + rapid.IntRange(-2, 2).Draw(rt, "delta")
			if c.N < 1 {
				c.N = 1
			}
		} else {
			c.N = rapid.IntRange(1, 5000).Draw(rt, "n")
		}
		stop := vkit.WatchLive("C09", "TestC09Scatter", c, 120*time.Second, "harness/c09.")
		v := runScatter(c)
		stop()
		vkit.S.Eval()
		if c.N%c.Procs != 0 {
			vkit.S.Nontrivial(c)
			vkit.S.Class("scatter:n-not-divisible")
		}
		if c.N < c.Procs {
			vkit.S.Class("scatter:n<gomaxprocs")
		}
		vkit.S.Sample(c, false)
		vkit.Report(rt, "C09", "TestC09Scatter", c, v)
	})
}
