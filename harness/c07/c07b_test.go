package c07

import (
	"context"
	"encoding/binary"
	"encoding/json"
	"fmt"
	"sync"
	"testing"
	"time"

	"github.com/attestantio/dirk/core"
	pb "github.com/wealdtech/eth2-signer-api/pb/v1"
	e2wtypes "github.com/wealdtech/go-eth2-wallet-types/v2"
	"pgregory.net/rapid"

	"verif/harness/vkit"
)

var (
	bWallets  = []string{"Wallet1", "Wallet2", "Wallet10", "xWallet2", "W"}
	bAccounts = []string{"a", "b", "ab", "a1"}
)

func bSpecs() []vkit.WalletSpec {
	var specs []vkit.WalletSpec
	k := 0
	for _, w := range bWallets {
		ws := vkit.WalletSpec{Name: w}
		for _, a := range bAccounts {
			ws.Accounts = append(ws.Accounts, vkit.AccountSpec{Name: a, KeyIndex: k})
			k++
		}
		specs = append(specs, ws)
	}

	return specs
}

// ReqB is one service request.
type ReqB struct {
	Client   string `json:"client"`
	Op       string `json:"op"` // sign | multisign | attest | attests | propose | list | lock-account | unlock-account | lock-wallet | unlock-wallet
	Accounts []int  `json:"accounts"`
	ByKey    bool   `json:"by_key,omitempty"`
	ViaGRPC  bool   `json:"via_grpc,omitempty"`
	// WalletForm: how a wallet-level request spells the wallet: 0 = "wallet", 1 = "wallet/account"
	// (the wallet is still what gets resolved), 2 = "wallet/".
	WalletForm int `json:"wallet_form,omitempty"`
}

// CaseB is a configuration and a request sequence.
type CaseB struct {
	Config *vkit.PermConfig `json:"config"`
	Reqs   []ReqB           `json:"reqs"`
}

var opOf = map[string]string{
	"sign": "Sign", "multisign": "Sign", "attest": "Sign beacon attestation", "attests": "Sign beacon attestation", "propose": "Sign beacon proposal",
	"create": "Create account", "list": "Access account", "lock-account": "Lock account", "unlock-account": "Unlock account", "lock-wallet": "Lock wallet", "unlock-wallet": "Unlock wallet",
}

func genCaseB(t *rapid.T) *CaseB {
	focus := []string{"Sign", "Sign beacon attestation", "Sign beacon proposal", "Access account", "Lock account", "Unlock account", "Lock wallet", "Unlock wallet", "Create account"}
	c := &CaseB{Config: vkit.GenPermConfig(t, []string{"alice", "bob"}, bWallets, bAccounts, focus)}
	// shapes that make allowed requests and single-operation refusals frequent
	switch k := rapid.IntRange(0, 9).Draw(t, "shape"); {
	case k < 2:
		pos := rapid.IntRange(0, len(c.Config.Clients["alice"])).Draw(t, "broad_pos")
		e := &vkit.PermEntry{Wallet: &vkit.Pat{Op: "star", Subs: []*vkit.Pat{{Op: "dot"}}}, Ops: []string{"All"}}
		es := c.Config.Clients["alice"]
		es = append(es[:pos:pos], append([]*vkit.PermEntry{e}, es[pos:]...)...)
		c.Config.Clients["alice"] = es
	case k < 6:
		// everything but one operation: a service that authorises with the wrong operation name shows
		x := rapid.SampledFrom(focus).Draw(t, "denied_op")
		e := &vkit.PermEntry{Wallet: &vkit.Pat{Op: "star", Subs: []*vkit.Pat{{Op: "dot"}}}, Ops: []string{"~" + x, "All"}}
		c.Config.Clients["alice"] = append([]*vkit.PermEntry{e}, c.Config.Clients["alice"]...)
	case k < 8:
		// exactly one operation
		x := rapid.SampledFrom(focus).Draw(t, "only_op")
		e := &vkit.PermEntry{Wallet: &vkit.Pat{Op: "star", Subs: []*vkit.Pat{{Op: "dot"}}}, Ops: []string{x, "None"}}
		c.Config.Clients["alice"] = append([]*vkit.PermEntry{e}, c.Config.Clients["alice"]...)
	}
	n := rapid.IntRange(1, 8).Draw(t, "nreqs")
	nAcc := len(bWallets) * len(bAccounts)
	_ = sync.Mutex{}
	for i := 0; i < n; i++ {
		r := ReqB{
			Client:  rapid.SampledFrom([]string{"alice", "alice", "alice", "alice", "bob", "mallory", "", "Alice", "alice ", "alic"}).Draw(t, "client"),
			Op:      rapid.SampledFrom([]string{"sign", "multisign", "attest", "attests", "propose", "list", "lock-account", "unlock-account", "lock-wallet", "unlock-wallet", "create"}).Draw(t, "op"),
			ByKey:   rapid.Bool().Draw(t, "bykey"),
			ViaGRPC: rapid.Bool().Draw(t, "grpc"),
		}
		if r.Op == "lock-wallet" || r.Op == "unlock-wallet" {
			r.WalletForm = rapid.SampledFrom([]int{0, 0, 1, 1, 2}).Draw(t, "wallet_form")
		}
		m := 1
		if r.Op == "multisign" || r.Op == "attests" {
			m = rapid.IntRange(2, 4).Draw(t, "m")
		}
		start := rapid.IntRange(0, nAcc-1).Draw(t, "acc")
		stride := rapid.SampledFrom([]int{1, 3, 7}).Draw(t, "stride")
		for j := 0; j < m; j++ {
			r.Accounts = append(r.Accounts, (start+j*stride)%nAcc)
		}
		c.Reqs = append(c.Reqs, r)
	}

	return c
}

func root(a, b uint64, s byte) []byte {
	r := make([]byte, 32)
	binary.LittleEndian.PutUint64(r, a)
	binary.LittleEndian.PutUint64(r[8:], b)
	r[31] = s

	return r
}

type outB struct {
	refusedWouldAdvance int
	allowedServed       int
	refused             int
	byKeyRefused        int
}

func lockedState(st *vkit.Stack, acc *vkit.AccountInfo) (bool, error) {
	_, a, err := st.Fetcher.FetchAccount(context.Background(), acc.Path())
	if err != nil {
		return false, err
	}

	return a.(e2wtypes.AccountLocker).IsUnlocked(context.Background())
}

func walletLocked(st *vkit.Stack, name string) (bool, error) {
	w, err := st.Fetcher.FetchWallet(context.Background(), name)
	if err != nil {
		return false, err
	}

	return w.(e2wtypes.WalletLocker).IsUnlocked(context.Background())
}

func runB(c *CaseB) (*outB, *vkit.Violation, error) {
	// a one-instance cluster, so that account creation runs through the real process service
	cl, err := vkit.NewCluster(vkit.ClusterOpts{IDs: []uint64{1}, Permissions: c.Config.ForDirk(), ExtraWallets: bSpecs()})
	if err != nil {
		return nil, nil, fmt.Errorf("cluster: %w (%s)", err, mustJSON(c.Config.ForDirk()))
	}
	defer cl.Close()
	node := cl.Nodes[0]
	st := node.Stack
	var bAccs []*vkit.AccountInfo
	for _, a := range node.World.Accounts {
		if a.Wallet != vkit.NWallet {
			bAccs = append(bAccs, a)
		}
	}
	o := &outB{}
	epoch := uint64(1)
	for ri, r := range c.Reqs {
		epoch += 2
		op := opOf[r.Op]
		accs := make([]*vkit.AccountInfo, len(r.Accounts))
		ts := make([]vkit.Target, len(r.Accounts))
		allowed := make([]bool, len(r.Accounts))
		for i, ai := range r.Accounts {
			accs[i] = bAccs[ai%len(bAccs)]
			ts[i] = vkit.TargetOf(accs[i], r.ByKey)
			switch r.Op {
			case "lock-wallet", "unlock-wallet":
				allowed[i] = c.Config.Allowed(r.Client, accs[i].Wallet, "", op)
			case "create":
				allowed[i] = c.Config.Allowed(r.Client, accs[i].Wallet, fmt.Sprintf("new%d", ri), op)
			default:
				allowed[i] = c.Config.Allowed(r.Client, accs[i].Wallet, accs[i].Name, op)
			}
		}
		before, err := st.Export()
		if err != nil {
			return o, nil, err
		}
		unlockedBefore := make([]bool, len(accs))
		for i, a := range accs {
			if unlockedBefore[i], err = lockedState(st, a); err != nil {
				return o, nil, err
			}
		}
		wUnlockedBefore, err := walletLocked(st, accs[0].Wallet)
		if err != nil {
			return o, nil, err
		}
		where := func(i int) string {
			return fmt.Sprintf("request %d: client %q, %s (grpc=%v, by_key=%v) position %d on %s", ri, r.Client, r.Op, r.ViaGRPC, r.ByKey, i, accs[i].Path())
		}
		served := make([]bool, len(accs))
		switch r.Op {
		case "sign":
			res := st.SignGeneric(r.Client, "", ts[0], r.ViaGRPC, &vkit.Generic{Data: root(epoch, 0, 7), Domain: append([]byte{2, 0, 0, 0}, make([]byte, 28)...)})
			served[0] = res.OK() || res.Released()
		case "multisign":
			gs := make([]*vkit.Generic, len(accs))
			for i := range gs {
				gs[i] = &vkit.Generic{Data: root(epoch, uint64(i), 7), Domain: append([]byte{2, 0, 0, 0}, make([]byte, 28)...)}
			}
			for i, res := range st.Multisign(r.Client, "", ts, r.ViaGRPC, gs) {
				if i < len(served) {
					served[i] = res.OK() || res.Released()
				}
			}
		case "attest":
			res := st.Attest(r.Client, "", ts[0], r.ViaGRPC, &vkit.Att{BlockRoot: root(epoch, 0, 1), SrcEpoch: epoch - 1, SrcRoot: root(1, 1, 2), TgtEpoch: epoch, TgtRoot: root(1, 1, 3), Domain: append([]byte{1, 0, 0, 0}, make([]byte, 28)...)})
			served[0] = res.OK() || res.Released()
		case "attests":
			as := make([]*vkit.Att, len(accs))
			for i := range as {
				as[i] = &vkit.Att{BlockRoot: root(epoch, uint64(i), 1), SrcEpoch: epoch - 1, SrcRoot: root(1, 1, 2), TgtEpoch: epoch, TgtRoot: root(1, 1, 3), Domain: append([]byte{1, 0, 0, 0}, make([]byte, 28)...)}
			}
			for i, res := range st.AttestBatch(r.Client, "", ts, r.ViaGRPC, as) {
				if i < len(served) {
					served[i] = res.OK() || res.Released()
				}
			}
		case "propose":
			res := st.Propose(r.Client, "", ts[0], r.ViaGRPC, &vkit.Prop{Slot: epoch, ParentRoot: root(epoch, 0, 4), StateRoot: root(1, 1, 5), BodyRoot: root(1, 1, 6), Domain: make([]byte, 32)})
			served[0] = res.OK() || res.Released()
		case "list":
			res, listed := st.Lister.ListAccounts(vkit.Ctx(r.Client, ""), vkit.Creds(r.Client, ""), []string{accs[0].Wallet})
			_ = res
			for _, a := range listed {
				if !c.Config.Allowed(r.Client, accs[0].Wallet, a.Name(), op) {
					return o, vkit.Violf("listed-without-permission", "request %d: client %q listing wallet %q received account %q which the permissions do not let it access", ri, r.Client, accs[0].Wallet, a.Name()), nil
				}
				if a.Name() == accs[0].Name {
					served[0] = true
				}
			}
		case "create":
			nBefore := 0
			if as, err := st.Fetcher.FetchAccounts(context.Background(), accs[0].Wallet); err == nil {
				nBefore = len(as)
			}
			resp, err := node.Generate(r.Client, fmt.Sprintf("%s/new%d", accs[0].Wallet, ri), 1, 1)
			if err != nil {
				return o, nil, err
			}
			served[0] = resp.GetState() == pb.ResponseState_SUCCEEDED || len(resp.GetPublicKey()) > 0
			nAfter := 0
			if as, err := st.Fetcher.FetchAccounts(context.Background(), accs[0].Wallet); err == nil {
				nAfter = len(as)
			}
			if !allowed[0] && nAfter != nBefore {
				return o, vkit.Violf("refused-request-changed-state.create", "%s: creation refused by the permissions, but the wallet went from %d to %d accounts", where(0), nBefore, nAfter), nil
			}
		case "lock-account":
			res, _ := st.AccMgr.Lock(vkit.Ctx(r.Client, ""), vkit.Creds(r.Client, ""), accs[0].Path())
			served[0] = res == core.ResultSucceeded
		case "unlock-account":
			res, _ := st.AccMgr.Unlock(vkit.Ctx(r.Client, ""), vkit.Creds(r.Client, ""), accs[0].Path(), []byte(vkit.DefaultPassphrase))
			served[0] = res == core.ResultSucceeded
		case "lock-wallet", "unlock-wallet":
			wname := accs[0].Wallet
			switch r.WalletForm {
			case 1:
				wname = accs[0].Path()
			case 2:
				wname += "/"
			}
			if r.ViaGRPC {
				if r.Op == "lock-wallet" {
					resp, err := st.WalMgrH.Lock(vkit.Ctx(r.Client, ""), vkit.WireRoundTrip(&pb.LockWalletRequest{Wallet: wname}))
					served[0] = err == nil && resp.GetState() == pb.ResponseState_SUCCEEDED
				} else {
					resp, err := st.WalMgrH.Unlock(vkit.Ctx(r.Client, ""), vkit.WireRoundTrip(&pb.UnlockWalletRequest{Wallet: wname}))
					served[0] = err == nil && resp.GetState() == pb.ResponseState_SUCCEEDED
				}
			} else if r.Op == "lock-wallet" {
				res, _ := st.WalMgr.Lock(vkit.Ctx(r.Client, ""), vkit.Creds(r.Client, ""), wname)
				served[0] = res == core.ResultSucceeded
			} else {
				res, _ := st.WalMgr.Unlock(vkit.Ctx(r.Client, ""), vkit.Creds(r.Client, ""), wname, nil)
				served[0] = res == core.ResultSucceeded
			}
			if r.WalletForm != 0 {
				vkit.S.Class("b:wallet-operation-spelled-with-a-suffix")
			}
		}
		after, err := st.Export()
		if err != nil {
			return o, nil, err
		}
		for i := range accs {
			if allowed[i] {
				if served[i] {
					o.allowedServed++
				}

				continue
			}
			o.refused++
			if r.ByKey {
				o.byKeyRefused++
			}
			if served[i] {
				return o, vkit.Violf("served-without-permission."+r.Op, "%s: the permissions refuse %q for this client but the operation was carried out", where(i), op), nil
			}
			key := fmt.Sprintf("%x", accs[i].PubKey)
			if before[key] != after[key] {
				return o, vkit.Violf("refused-request-changed-state."+r.Op, "%s: refused, but the slashing-protection record went from %v to %v", where(i), before[key], after[key]), nil
			}
			un, err := lockedState(st, accs[i])
			if err != nil {
				return o, nil, err
			}
			if un != unlockedBefore[i] && (r.Op == "lock-account" || r.Op == "unlock-account") {
				return o, vkit.Violf("refused-request-changed-state."+r.Op, "%s: refused, but the account's unlocked state went from %v to %v", where(i), unlockedBefore[i], un), nil
			}
			if r.Op == "lock-wallet" || r.Op == "unlock-wallet" {
				wu, err := walletLocked(st, accs[i].Wallet)
				if err != nil {
					return o, nil, err
				}
				if wu != wUnlockedBefore {
					return o, vkit.Violf("refused-request-changed-state."+r.Op, "%s: refused, but the wallet's unlocked state went from %v to %v", where(i), wUnlockedBefore, wu), nil
				}
			}
			switch r.Op {
			case "attest", "attests", "propose":
				o.refusedWouldAdvance++
			}
		}
	}

	return o, nil, nil
}

// TestC07B is part B: services decide on the resolved account and refused requests change nothing.
func TestC07B(t *testing.T) {
	defer vkit.Flush()
	for _, r := range vkit.ReplayFiles("TestC07B") {
		var c CaseB
		if err := json.Unmarshal(r.Case, &c); err != nil {
			t.Fatalf("bad replay case: %v", err)
		}
		_, v, err := runB(&c)
		if err != nil {
			t.Fatalf("replay infrastructure error: %v", err)
		}
		vkit.Report(t, "C07", "TestC07B", &c, v)
	}
	if vkit.ReplayOnly() {
		return
	}
	rapid.Check(t, func(rt *rapid.T) {
		c := genCaseB(rt)
		stop := vkit.Watch(c, 120*time.Second)
		o, v, err := runB(c)
		stop()
		if err != nil {
			rt.Fatalf("INFRA: %v", err)
		}
		vkit.S.Eval()
		vkit.S.ClassN("b:refused-positions", o.refused)
		vkit.S.ClassN("b:refused-positions-addressed-by-public-key", o.byKeyRefused)
		vkit.S.ClassN("b:allowed-and-served-positions", o.allowedServed)
		vkit.S.ClassN("b:refused-slashable-requests-that-would-have-advanced-state", o.refusedWouldAdvance)
		for _, r := range c.Reqs {
			vkit.S.Class("b:op-" + r.Op)
		}
		if o.refusedWouldAdvance > 0 {
			vkit.S.Nontrivial(c)
		}
		vkit.S.Sample(map[string]any{"config": c.Config.ForDirk(), "reqs": c.Reqs}, o.refusedWouldAdvance > 0 && o.allowedServed > 0)
		vkit.Report(rt, "C07", "TestC07B", c, v)
	})
}
