// Package c07 decides C07: operations are served only when the client's permissions allow them.
package c07

import (
	"context"
	"encoding/json"
	"fmt"
	"testing"
	"time"

	"github.com/attestantio/dirk/services/checker"
	staticchecker "github.com/attestantio/dirk/services/checker/static"
	"pgregory.net/rapid"

	"verif/harness/vkit"
)

// Query is one permission question.
type Query struct {
	Client  string `json:"client"`
	Wallet  string `json:"wallet"`
	Account string `json:"account"`
	Op      string `json:"op"`
}

// CaseA is a configuration plus questions.
type CaseA struct {
	Config  *vkit.PermConfig `json:"config"`
	Queries []Query          `json:"queries"`
}

var baseWallets = []string{"Wallet1", "Wallet2", "Wallet10", "W", "w a", "ab"}
var baseAccounts = []string{"a", "b", "ab", "a1", "1", "Wa"}

func genName(t *rapid.T, pats []*vkit.Pat, base []string) string {
	k := rapid.IntRange(0, 9).Draw(t, "name_src")
	var s string
	switch {
	case k < 7 && len(pats) > 0:
		s = pats[rapid.IntRange(0, len(pats)-1).Draw(t, "from_pat")].Sample(t)
	default:
		s = rapid.SampledFrom(base).Draw(t, "base")
	}
	if rapid.IntRange(0, 9).Draw(t, "mutate") < 3 {
		s = vkit.Mutate(t, s)
	}

	return s
}

func genCaseA(t *rapid.T) *CaseA {
	clients := []string{"alice", "bob", "carol"}[:rapid.IntRange(1, 3).Draw(t, "nclients")]
	c := &CaseA{Config: vkit.GenPermConfig(t, clients, baseWallets, baseAccounts, nil)}
	var wpats, apats []*vkit.Pat
	for _, es := range c.Config.Clients {
		for _, e := range es {
			wpats = append(wpats, e.Wallet)
			if e.Account != nil {
				apats = append(apats, e.Account)
			}
		}
	}
	nq := rapid.IntRange(1, 12).Draw(t, "nqueries")
	for i := 0; i < nq; i++ {
		q := Query{
			Client: rapid.SampledFrom([]string{"alice", "alice", "alice", "bob", "carol", "mallory", "", "Alice", "ALICE", "alice ", "alic", "bobby"}).Draw(t, "qclient"),
			Wallet: genName(t, wpats, baseWallets),
			Op:     rapid.SampledFrom(append(append([]string{}, vkit.Operations...), "Frobnicate")).Draw(t, "qop"),
		}
		if rapid.IntRange(0, 9).Draw(t, "has_acc") < 8 {
			q.Account = genName(t, apats, baseAccounts)
		}
		c.Queries = append(c.Queries, q)
	}

	return c
}

type outA struct {
	nontrivial bool
	allowed    int
	denied     int
}

func runA(c *CaseA) (*outA, *vkit.Violation, error) {
	vkit.Init()
	svc, err := staticchecker.New(context.Background(), staticchecker.WithPermissions(c.Config.ForDirk()))
	if err != nil {
		// the printer only emits valid expressions; a rejected configuration is a harness problem
		return nil, nil, fmt.Errorf("checker rejected the configuration: %w (%s)", err, mustJSON(c.Config.ForDirk()))
	}
	o := &outA{}
	for qi, q := range c.Queries {
		path := q.Wallet
		if q.Account != "" {
			path = q.Wallet + "/" + q.Account
		}
		if q.Wallet == "" || q.Wallet[0] == '/' {
			continue
		}
		got := svc.Check(context.Background(), &checker.Credentials{Client: q.Client}, path, q.Op)
		want := c.Config.Allowed(q.Client, q.Wallet, q.Account, q.Op)
		if want {
			o.allowed++
		} else {
			o.denied++
		}
		// non-triviality: a later entry decides, a near miss, or a negative before a positive
		if es, ok := c.Config.Clients[q.Client]; ok {
			matched := 0
			for _, e := range es {
				if e.Wallet.Matches(q.Wallet) && e.Account.Matches(q.Account) {
					matched++
				}
			}
			if matched > 0 && (matched < len(es) || len(es) > 1) {
				o.nontrivial = true
			}
		}
		if got != want {
			sig := "permission-granted-but-model-denies"
			if want {
				sig = "permission-denied-but-model-allows"
			}
			entries := []string{}
			for _, e := range c.Config.Clients[q.Client] {
				entries = append(entries, fmt.Sprintf("%q %v", e.Path(), e.Ops))
			}

			return o, vkit.Violf(sig, "query %d: client %q, wallet %q, account %q, operation %q: Dirk says %v, the reference evaluation says %v; entries of the client: %v", qi, q.Client, q.Wallet, q.Account, q.Op, got, want, entries), nil
		}
	}

	return o, nil, nil
}

func mustJSON(v any) string {
	b, _ := json.Marshal(v)

	return string(b)
}

// TestC07A is part A: the checker against the reference evaluator.
func TestC07A(t *testing.T) {
	defer vkit.Flush()
	for _, r := range vkit.ReplayFiles("TestC07A") {
		var c CaseA
		if err := json.Unmarshal(r.Case, &c); err != nil {
			t.Fatalf("bad replay case: %v", err)
		}
		_, v, err := runA(&c)
		if err != nil {
			t.Fatalf("replay infrastructure error: %v", err)
		}
		vkit.Report(t, "C07", "TestC07A", &c, v)
	}
	if vkit.ReplayOnly() {
		return
	}
	rapid.Check(t, func(rt *rapid.T) {
		c := genCaseA(rt)
		stop := vkit.Watch(c, 120*time.Second)
		o, v, err := runA(c)
		stop()
		if err != nil {
			rt.Fatalf("INFRA: %v", err)
		}
		vkit.S.Eval()
		vkit.S.ClassN("a:queries-model-allows", o.allowed)
		vkit.S.ClassN("a:queries-model-denies", o.denied)
		if o.nontrivial {
			vkit.S.Nontrivial(c)
		}
		vkit.S.Sample(map[string]any{"config": c.Config.ForDirk(), "queries": c.Queries}, o.nontrivial && o.allowed > 0 && o.denied > 0)
		vkit.Report(rt, "C07", "TestC07A", c, v)
	})
}
