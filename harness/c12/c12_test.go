// Package c12 decides C12: a successful distributed key generation yields one consistent threshold key.
package c12

import (
	"bytes"
	"crypto/sha256"
	"encoding/json"
	"fmt"
	"testing"
	"time"

	"github.com/herumi/bls-eth-go-binary/bls"
	pb "github.com/wealdtech/eth2-signer-api/pb/v1"
	"pgregory.net/rapid"

	"verif/harness/vkit"
)

const client = "client1"

// Case is one generation request on a cluster.
type Case struct {
	IDs         []uint64 `json:"ids"`
	N           uint32   `json:"participants"`
	T           uint32   `json:"threshold"`
	Initiator   int      `json:"initiator"`
	CommitOrder []int    `json:"commit_order,omitempty"`
	Tamper      string   `json:"tamper,omitempty"` // pubkey-replace | pubkey-empty | sig-replace | sig-empty
	TamperAt    int      `json:"tamper_at,omitempty"`
	Name        string   `json:"name"`
	EmptyPass   bool     `json:"empty_passphrase,omitempty"` // the request carries no passphrase: instances use their generation passphrase
	// Prior, if set, is an earlier generation attempt under the same name on the same cluster:
	// "complete" runs to its end; "lost-commit" loses the PriorLost-th commit message (so the
	// attempt fails with the account stored on some participants only).  Afterwards every
	// instance's sessions are aged past the timeout, and the generation under test follows.
	Prior          string `json:"prior,omitempty"`
	PriorLost      int    `json:"prior_lost,omitempty"`
	PriorInitiator int    `json:"prior_initiator,omitempty"`
}

var idClasses = map[string][]uint64{
	"small":     {1, 2, 3, 4, 5, 6, 7, 8, 9},
	"sparse":    {10, 200, 3000, 40000, 500000, 6000000, 70000000, 800000000},
	"ge2^63":    {1 << 63, 1<<63 + 1, 1<<63 + 77, 1<<63 + 1<<40, 1<<63 | 1<<62, 1<<63 + 5, 1<<63 + 6, 1<<63 + 9},
	"near2^64":  {1<<64 - 1, 1<<64 - 2, 1<<64 - 3, 1<<64 - 4},
	"mixed-all": {1, 1 << 63, 1<<64 - 1, 7, 1<<64 - 4, 3000, 1<<63 + 5, 2},
}

func genIDs(t *rapid.T, n int) ([]uint64, string) {
	class := rapid.SampledFrom([]string{"small", "small", "sparse", "ge2^63", "near2^64", "mixed-all"}).Draw(t, "id_class")
	pool := append([]uint64{}, idClasses[class]...)
	if len(pool) < n {
		pool = append(pool, idClasses["small"]...)
	}
	perm := rapid.Permutation(pool).Draw(t, "ids")

	return perm[:n], class
}

func genCase(t *rapid.T) (*Case, string) {
	nInst := rapid.IntRange(2, 7).Draw(t, "instances")
	ids, class := genIDs(t, nInst)
	c := &Case{IDs: ids, Initiator: rapid.IntRange(0, nInst-1).Draw(t, "initiator"), Name: "acc"}
	switch k := rapid.IntRange(0, 9).Draw(t, "in_range"); {
	case k < 5:
		// a request that fits the cluster and the bound
		c.N = uint32(rapid.IntRange(2, nInst).Draw(t, "n"))
		c.T = uint32(rapid.IntRange(int(c.N)/2+1, int(c.N)).Draw(t, "t"))
	case k < 8:
		// on and next to the edges of the bound
		c.N = uint32(rapid.IntRange(2, nInst).Draw(t, "n"))
		c.T = rapid.SampledFrom([]uint32{c.N / 2, c.N/2 + 1, c.N, c.N + 1, (c.N + 1) / 2}).Draw(t, "t_edge")
	default:
		c.N = uint32(rapid.IntRange(2, 7).Draw(t, "n"))
		c.T = uint32(rapid.IntRange(0, 8).Draw(t, "t"))
	}
	c.EmptyPass = rapid.IntRange(0, 3).Draw(t, "empty_pass") == 0
	if rapid.Bool().Draw(t, "steer_commits") {
		c.CommitOrder = rapid.Permutation([]int{0, 1, 2, 3, 4, 5, 6}).Draw(t, "commit_order")
	}
	if rapid.IntRange(0, 4).Draw(t, "prior") == 0 {
		c.Prior = rapid.SampledFrom([]string{"lost-commit", "lost-commit", "complete"}).Draw(t, "prior_kind")
		c.PriorLost = rapid.IntRange(0, int(maxu32(c.N, 1))-1).Draw(t, "prior_lost")
		c.PriorInitiator = rapid.IntRange(0, nInst-1).Draw(t, "prior_initiator")
	}
	if rapid.IntRange(0, 9).Draw(t, "tamper") < 3 {
		c.Tamper = rapid.SampledFrom([]string{"pubkey-replace", "pubkey-empty", "sig-replace", "sig-replace", "sig-empty"}).Draw(t, "tamper_kind")
		c.TamperAt = rapid.IntRange(0, int(maxu32(c.N, 1))-1).Draw(t, "tamper_at")
	}

	return c, class
}

type outcome struct {
	priorSuccess bool
	priorHolders int
	message      string
	success      bool
	tampered     bool
	refusedOB    bool
	initIn       bool
	subsets      int
}

func run(c *Case) (*outcome, *vkit.Violation, error) {
	cl, err := vkit.NewCluster(vkit.ClusterOpts{IDs: c.IDs})
	if err != nil {
		return nil, nil, err
	}
	defer cl.Close()
	o := &outcome{}
	cl.Net.CommitOrder = c.CommitOrder
	commitSeen := 0
	if c.Tamper != "" {
		cl.Net.After = func(m *vkit.Msg) error {
			if m.Kind != "commit" {
				return nil
			}
			idx := commitSeen
			commitSeen++
			if idx != c.TamperAt {
				return nil
			}
			r := m.Resp.(*pb.CommitResponse)
			o.tampered = true
			switch c.Tamper {
			case "pubkey-replace":
				var sk bls.SecretKey
				sk.SetByCSPRNG()
				r.PublicKey = sk.GetPublicKey().Serialize()
			case "pubkey-empty":
				r.PublicKey = nil
			case "sig-replace":
				var sk bls.SecretKey
				sk.SetByCSPRNG()
				r.ConfirmationSignature = sk.SignByte([]byte("something else")).Serialize()
			case "sig-empty":
				r.ConfirmationSignature = nil
			}

			return nil
		}
	}
	init := cl.Nodes[c.Initiator]
	account := vkit.DWallet + "/" + c.Name
	pass := []byte(vkit.DefaultPassphrase)
	if c.EmptyPass {
		pass = nil
	}
	if c.Prior != "" {
		commits := 0
		cl.Net.Before = func(m *vkit.Msg) error {
			if m.Kind == "commit" {
				if c.Prior == "lost-commit" && commits == c.PriorLost {
					m.Dropped = true
				}
				commits++
			}

			return nil
		}
		savedAfter, savedOrder := cl.Net.After, cl.Net.CommitOrder
		cl.Net.After, cl.Net.CommitOrder = nil, nil
		presp, perr := cl.Nodes[c.PriorInitiator%len(cl.Nodes)].GenerateWithPassphrase(client, account, c.N, c.T, pass)
		cl.Net.Before, cl.Net.After, cl.Net.CommitOrder = nil, savedAfter, savedOrder
		o.priorSuccess = perr == nil && presp != nil && presp.GetState() == pb.ResponseState_SUCCEEDED
		for _, n := range cl.Nodes {
			if s, _ := n.HasAccount(c.Name); s {
				o.priorHolders++
			}
			n.Process.VerifAgeGenerations(2 * time.Hour)
		}
		if len(cl.Net.HookPanics) > 0 {
			return o, nil, fmt.Errorf("a hook of the check itself panicked: %s", cl.Net.HookPanics[0])
		}
		if len(cl.Net.Panics) > 0 {
			return o, vkit.Violf("instance-panicked", "prior generation (n=%d,t=%d) crashed an instance: %v", c.N, c.T, cl.Net.Panics), nil
		}
	}
	heldBefore := map[uint64]bool{}
	for _, n := range cl.Nodes {
		if s, f := n.HasAccount(c.Name); s || f {
			heldBefore[n.ID] = true
		}
	}
	resp, err := init.GenerateWithPassphrase(client, account, c.N, c.T, pass)
	if len(cl.Net.HookPanics) > 0 {
		return o, nil, fmt.Errorf("a hook of the check itself panicked: %s", cl.Net.HookPanics[0])
	}
	if len(cl.Net.Panics) > 0 {
		return o, vkit.Violf("instance-panicked", "generation (n=%d,t=%d) crashed an instance: %v", c.N, c.T, cl.Net.Panics), nil
	}
	success := err == nil && resp != nil && resp.GetState() == pb.ResponseState_SUCCEEDED
	if resp != nil {
		o.message = resp.GetMessage()
	}
	o.success = success
	inBound := c.T <= c.N && c.T > c.N/2
	if !success {
		if !inBound {
			o.refusedOB = true
		}

		return o, nil, nil
	}
	// ---- success: everything the statement promises ---------------------------------------------
	where := fmt.Sprintf("generation n=%d t=%d on %d instances (ids %v, initiator %d)", c.N, c.T, len(c.IDs), c.IDs, c.IDs[c.Initiator])
	if !inBound {
		return o, vkit.Violf("accepted-outside-bound", "%s reported success although n/2 < t <= n does not hold", where), nil
	}
	if o.tampered {
		return o, vkit.Violf("accepted-tampered-commit", "%s reported success although the commit reply %d was tampered (%s)", where, c.TamperAt, c.Tamper), nil
	}
	if uint32(len(resp.GetParticipants())) != c.N {
		return o, vkit.Violf("participant-count", "%s returned %d participants", where, len(resp.GetParticipants())), nil
	}
	composite := resp.GetPublicKey()
	var ref *vkit.DistAccount
	var refID uint64
	ids := []uint64{}
	seen := map[uint64]bool{}
	for _, p := range resp.GetParticipants() {
		if seen[p.GetId()] {
			return o, vkit.Violf("duplicate-participant", "%s lists participant %d twice", where, p.GetId()), nil
		}
		seen[p.GetId()] = true
		ids = append(ids, p.GetId())
		if p.GetId() == c.IDs[c.Initiator] {
			o.initIn = true
		}
		node, ok := cl.ByID[p.GetId()]
		if !ok {
			return o, vkit.Violf("unknown-participant", "%s lists participant %d which is not an instance", where, p.GetId()), nil
		}
		da, held, err := node.StoredDistAccount(c.Name)
		if err != nil {
			return o, nil, err
		}
		if !held {
			return o, vkit.Violf("participant-without-account", "%s: participant %d does not hold the account in its store", where, p.GetId()), nil
		}
		if !da.InFetcher {
			return o, vkit.Violf("account-not-usable-without-restart", "%s: participant %d stored the account but cannot fetch it for signing or listing", where, p.GetId()), nil
		}
		if !bytes.Equal(da.CompositePub, composite) {
			return o, vkit.Violf("composite-key-mismatch", "%s: participant %d holds composite key %x, the client was given %x", where, p.GetId(), da.CompositePub, composite), nil
		}
		if da.Threshold != c.T {
			return o, vkit.Violf("threshold-mismatch", "%s: participant %d holds threshold %d", where, p.GetId(), da.Threshold), nil
		}
		if uint32(len(da.VVec)) != c.T {
			return o, vkit.Violf("vector-length", "%s: participant %d holds a verification vector of %d entries", where, p.GetId(), len(da.VVec)), nil
		}
		if !bytes.Equal(da.VVec[0], composite) {
			return o, vkit.Violf("vector-constant-term", "%s: participant %d: first vector entry is not the composite key", where, p.GetId()), nil
		}
		if ref == nil {
			ref, refID = da, p.GetId()
		} else {
			if len(ref.VVec) != len(da.VVec) {
				return o, vkit.Violf("vector-mismatch", "%s: participants %d and %d hold vectors of different length", where, refID, p.GetId()), nil
			}
			for i := range ref.VVec {
				if !bytes.Equal(ref.VVec[i], da.VVec[i]) {
					return o, vkit.Violf("vector-mismatch", "%s: participants %d and %d differ in vector entry %d", where, refID, p.GetId(), i), nil
				}
			}
			if len(ref.Participants) != len(da.Participants) {
				return o, vkit.Violf("participants-mismatch", "%s: participants %d and %d hold different participant lists", where, refID, p.GetId()), nil
			}
			for k, v := range ref.Participants {
				if da.Participants[k] != v {
					return o, vkit.Violf("participants-mismatch", "%s: participants %d and %d hold different participant lists", where, refID, p.GetId()), nil
				}
			}
		}
		if uint32(len(da.Participants)) != c.N {
			return o, vkit.Violf("participants-mismatch", "%s: participant %d holds a list of %d participants", where, p.GetId(), len(da.Participants)), nil
		}
		for _, q := range resp.GetParticipants() {
			addr, ok := da.Participants[q.GetId()]
			if !ok {
				return o, vkit.Violf("participants-mismatch", "%s: participant %d's list lacks %d", where, p.GetId(), q.GetId()), nil
			}
			if want := cl.ByID[q.GetId()].Endpoint.ConnectAddress(); addr != want || q.GetName() != cl.ByID[q.GetId()].Name {
				return o, vkit.Violf("participants-mismatch", "%s: participant %d records %d at %q (reply names it %q), it is configured as %q", where, p.GetId(), q.GetId(), addr, q.GetName(), want), nil
			}
		}
		want, err := vkit.EvalVVec(da.VVec, p.GetId())
		if err != nil {
			return o, vkit.Violf("vector-invalid", "%s: participant %d: %v", where, p.GetId(), err), nil
		}
		if !bytes.Equal(want, da.SharePub) {
			return o, vkit.Violf("share-inconsistent-with-vector", "%s: participant %d's share key %x is not the vector evaluated at its id (%x)", where, p.GetId(), da.SharePub, want), nil
		}
	}
	// partial signatures through each participant's signer service, immediately
	data := sha256.Sum256([]byte(where))
	domain := append([]byte{7, 0, 0, 0}, make([]byte, 28)...)
	root := vkit.SigningRoot(data, domain)
	partials := map[uint64][]byte{}
	for _, id := range ids {
		node := cl.ByID[id]
		share, _, _ := node.StoredDistAccount(c.Name)
		r := node.Stack.SignGeneric(client, "", vkit.Target{Account: account, PubKey: share.SharePub, ByKey: (id/2)%2 == 1}, id%2 == 0, &vkit.Generic{Data: data[:], Domain: domain})
		if !r.OK() || !r.Released() {
			return o, vkit.Violf("account-not-usable-without-restart", "%s: participant %d answered %s to a signing request right after generation", where, id, r.State), nil
		}
		da, _, _ := node.StoredDistAccount(c.Name)
		if err := vkit.VerifySig(da.SharePub, root, r.Sig); err != nil {
			return o, vkit.Violf("partial-signature-invalid", "%s: participant %d's partial signature does not verify under its share key: %v", where, id, err), nil
		}
		partials[id] = r.Sig
		// listing
		lr, err := node.Stack.ListerH.ListAccounts(vkit.Ctx(client, ""), vkit.WireRoundTrip(&pb.ListAccountsRequest{Paths: []string{vkit.DWallet}}))
		if err != nil {
			return o, nil, err
		}
		found := false
		for _, a := range lr.GetDistributedAccounts() {
			if a.GetName() == account && bytes.Equal(a.GetCompositePublicKey(), composite) && bytes.Equal(a.GetPublicKey(), da.SharePub) {
				found = true
			}
		}
		if !found {
			return o, vkit.Violf("account-not-listed", "%s: participant %d does not list the new account (got %d distributed accounts)", where, id, len(lr.GetDistributedAccounts())), nil
		}
	}
	for _, sub := range vkit.Subsets(ids, int(c.T)) {
		ok, err := vkit.Recover(partials, sub, composite, root[:])
		if err != nil {
			return o, nil, err
		}
		o.subsets++
		if !ok {
			return o, vkit.Violf("threshold-subset-does-not-recover", "%s: the partial signatures of participants %v do not combine into a signature valid under the composite key", where, sub), nil
		}
	}
	if c.T > 1 {
		for _, sub := range vkit.Subsets(ids, int(c.T)-1) {
			ok, err := vkit.Recover(partials, sub, composite, root[:])
			if err != nil {
				return o, nil, err
			}
			o.subsets++
			if ok {
				return o, vkit.Violf("fewer-than-threshold-recover", "%s: only %d participants %v produce a signature valid under the composite key", where, len(sub), sub), nil
			}
		}
	}
	// this generation gave bystanders nothing (what an earlier attempt left behind is not its doing)
	for _, n := range cl.Nodes {
		if seen[n.ID] || heldBefore[n.ID] {
			continue
		}
		if s, f := n.HasAccount(c.Name); s || f {
			return o, vkit.Violf("bystander-holds-account", "%s: instance %d is not a participant but holds the account", where, n.ID), nil
		}
	}

	return o, nil, nil
}

func maxu32(a, b uint32) uint32 {
	if a > b {
		return a
	}

	return b
}

// TestC12 decides C12.
func TestC12(t *testing.T) {
	defer vkit.Flush()
	for _, r := range vkit.ReplayFiles("TestC12") {
		var c Case
		if err := json.Unmarshal(r.Case, &c); err != nil {
			t.Fatalf("bad replay case: %v", err)
		}
		o, v, err := run(&c)
		if err != nil {
			t.Fatalf("replay infrastructure error: %v", err)
		}
		t.Logf("replay: success=%v message=%q", o.success, o.message)
		vkit.Report(t, "C12", "TestC12", &c, v)
	}
	if vkit.ReplayOnly() {
		return
	}
	rapid.Check(t, func(rt *rapid.T) {
		c, class := genCase(rt)
		stop := vkit.Watch(c, 120*time.Second)
		o, v, err := run(c)
		stop()
		if err != nil {
			rt.Fatalf("INFRA: %v", err)
		}
		vkit.S.Eval()
		vkit.S.Class("ids-" + class)
		if c.Prior != "" {
			vkit.S.Class("prior-attempt-under-the-same-name-" + c.Prior)
			if !o.priorSuccess && o.priorHolders > 0 {
				vkit.S.Class("prior-attempt-failed-leaving-the-account-on-some-instances")
			}
			if o.success {
				vkit.S.Class("success-after-a-prior-attempt-under-the-same-name")
			}
		}
		if o.success {
			vkit.S.Class(fmt.Sprintf("success-n%d-t%d", c.N, c.T))
			vkit.S.Class("successful-generation")
			vkit.S.ClassN("signature-subsets-checked", o.subsets)
			if !o.initIn {
				vkit.S.Class("initiator-not-a-participant")
			}
			if c.EmptyPass {
				vkit.S.Class("success-without-request-passphrase")
			}
			if len(c.CommitOrder) > 0 {
				vkit.S.Class("success-with-steered-commit-order")
			}
		}
		if o.refusedOB {
			vkit.S.Class("refused-outside-bound")
		}
		if o.tampered {
			vkit.S.Class("tampered-commit-reply-delivered")
		}
		nt := (o.success && c.N >= 3) || o.refusedOB
		if nt {
			vkit.S.Nontrivial(c)
		}
		vkit.S.Sample(map[string]any{"case": c, "success": o.success, "subsets_checked": o.subsets}, o.success && c.N >= 4)
		vkit.Report(rt, "C12", "TestC12", c, v)
	})
}
