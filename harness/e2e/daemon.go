// Package e2e drives the real dirk binary, started from a configuration file, over gRPC with mutual
// TLS.  The other check packages assemble Dirk's services themselves; this one sees what package
// main wires together (configuration parsing, service wiring, interceptors, certificates).
package e2e

import (
	"context"
	"crypto/sha256"
	"crypto/tls"
	"crypto/x509"
	"encoding/json"
	"encoding/pem"
	"errors"
	"fmt"
	"net"
	"os"
	"os/exec"
	"path/filepath"
	"strings"
	"sync"
	"syscall"
	"time"

	"github.com/attestantio/dirk/rules"
	standardrules "github.com/attestantio/dirk/rules/standard"
	filesystem "github.com/wealdtech/go-eth2-wallet-store-filesystem"
	"google.golang.org/grpc"
	"google.golang.org/grpc/credentials"
	"google.golang.org/grpc/metadata"

	"verif/harness/vkit"
)

// ServerName is the daemon's name (the subject of its certificate).
const ServerName = "signer-test01"

// Wallets of the fixture.
const (
	WA = "Wallet A"
	WB = "Wallet B"
	WD = "Wallet D" // distributed wallet, present on every instance
	WC = "Wallet C" // lives in a second store
)

// InstanceName is the name (and loopback address) of instance i of a cluster: peers reach each other
// at these addresses, and their certificates carry them as subject and IP SAN.
func InstanceName(i int) string { return fmt.Sprintf("127.0.0.%d", i+1) }

type fixture struct {
	dir   string // template directory: wallets/, certs/, pass.txt
	world *vkit.World
	ca    *vkit.CA
	other *vkit.CA
	// server is the authority that issued the single daemon's own certificate; it is not the configured client authority
	server *vkit.CA
	creds  map[string]*tls.Certificate
	mu     sync.Mutex
}

var (
	fixOnce sync.Once
	fix     *fixture
	fixErr  error
)

func copyDir(src, dst string) error {
	return filepath.Walk(src, func(p string, info os.FileInfo, err error) error {
		if err != nil {
			return err
		}
		rel, _ := filepath.Rel(src, p)
		t := filepath.Join(dst, rel)
		if info.IsDir() {
			return os.MkdirAll(t, 0o700)
		}
		b, err := os.ReadFile(p)
		if err != nil {
			return err
		}

		return os.WriteFile(t, b, 0o600)
	})
}

func getFixture() (*fixture, error) {
	fixOnce.Do(func() {
		vkit.Init()
		f := &fixture{creds: map[string]*tls.Certificate{}}
		f.dir, fixErr = os.MkdirTemp("", "e2e-fixture")
		if fixErr != nil {
			return
		}
		store := filesystem.New(filesystem.WithLocation(filepath.Join(f.dir, "wallets")))
		f.world, fixErr = vkit.NewWorldIn(store, []vkit.WalletSpec{
			{Name: WA, Accounts: []vkit.AccountSpec{{Name: "a", KeyIndex: 9101}, {Name: "b", KeyIndex: 9102}}},
			{Name: WB, Accounts: []vkit.AccountSpec{{Name: "a", KeyIndex: 9103}, {Name: "c", KeyIndex: 9104}}},
			{Name: WD, Distributed: true},
		})
		if fixErr != nil {
			return
		}
		// a second filesystem store with one more wallet: the daemon is configured with both
		w2, err := vkit.NewWorldIn(filesystem.New(filesystem.WithLocation(filepath.Join(f.dir, "wallets2"))), []vkit.WalletSpec{
			{Name: WC, Accounts: []vkit.AccountSpec{{Name: "a", KeyIndex: 9105}}},
		})
		if err != nil {
			fixErr = err

			return
		}
		for _, a := range w2.Accounts {
			f.world.Accounts = append(f.world.Accounts, a)
			f.world.ByPath[a.Path()] = a
		}
		if f.ca, fixErr = vkit.NewCA("e2e authority"); fixErr != nil {
			return
		}
		if f.other, fixErr = vkit.NewCA("e2e other authority"); fixErr != nil {
			return
		}
		// the single daemon's certificate comes from a separate server authority and is configured as a bundle
		// (leaf followed by that authority's certificate); the configured client authority stays f.ca
		if f.server, fixErr = vkit.NewCA("e2e server authority"); fixErr != nil {
			return
		}
		cert, key, err := f.server.Leaf(vkit.LeafSpec{CN: ServerName, DNS: []string{ServerName, "localhost"}, IPs: []net.IP{net.ParseIP("127.0.0.1")},
			NotBefore: time.Now().Add(-time.Hour), NotAfter: time.Now().Add(24 * time.Hour), EKU: []x509.ExtKeyUsage{x509.ExtKeyUsageServerAuth, x509.ExtKeyUsageClientAuth}})
		if err != nil {
			fixErr = err

			return
		}
		cert = append(append([]byte{}, cert...), f.server.CertPEM...)
		cd := filepath.Join(f.dir, "certs")
		_ = os.MkdirAll(cd, 0o700)
		files := map[string][]byte{"server.crt": cert, "server.key": key, "ca.crt": f.ca.CertPEM}
		for i := 0; i < 4; i++ {
			n := InstanceName(i)
			c, k, err := f.ca.Leaf(vkit.LeafSpec{CN: n, IPs: []net.IP{net.ParseIP(n)}, NotBefore: time.Now().Add(-time.Hour), NotAfter: time.Now().Add(24 * time.Hour),
				EKU: []x509.ExtKeyUsage{x509.ExtKeyUsageServerAuth, x509.ExtKeyUsageClientAuth}})
			if err != nil {
				fixErr = err

				return
			}
			files[fmt.Sprintf("instance%d.crt", i)], files[fmt.Sprintf("instance%d.key", i)] = c, k
		}
		for name, b := range files {
			if fixErr = os.WriteFile(filepath.Join(cd, name), b, 0o600); fixErr != nil {
				return
			}
		}
		fixErr = os.WriteFile(filepath.Join(f.dir, "pass.txt"), []byte(vkit.DefaultPassphrase), 0o600)
		fix = f
	})

	return fix, fixErr
}

// Cred is what a caller presents.
type Cred struct {
	CN     string   `json:"cn"`
	Issuer string   `json:"issuer"` // "" no certificate | ca | other (another authority) | self (self-signed) | server (the authority that issued the server's certificate)
	DNS    []string `json:"dns,omitempty"`
	// Append names a certificate of the configured authority whose public part is appended to the presented chain
	// (the caller does not hold its key): "cn:<name>" or "instance:<i>".
	Append string `json:"append,omitempty"`
}

// clientCert mints (once) the certificate for the credential.
func (f *fixture) clientCert(c Cred) (*tls.Certificate, error) {
	f.mu.Lock()
	defer f.mu.Unlock()
	k := fmt.Sprintf("%s/%s/%v/%s", c.CN, c.Issuer, c.DNS, c.Append)
	if crt, ok := f.creds[k]; ok {
		return crt, nil
	}
	ca := f.ca
	switch c.Issuer {
	case "other", "self":
		ca = f.other
	case "server":
		ca = f.server
	}
	certPEM, keyPEM, err := ca.Leaf(vkit.LeafSpec{CN: c.CN, DNS: c.DNS, SelfSigned: c.Issuer == "self", NotBefore: time.Now().Add(-time.Hour), NotAfter: time.Now().Add(24 * time.Hour),
		EKU: []x509.ExtKeyUsage{x509.ExtKeyUsageClientAuth}})
	if err != nil {
		return nil, err
	}
	pair, err := tls.X509KeyPair(certPEM, keyPEM)
	if err != nil {
		return nil, err
	}
	if c.Append != "" {
		var extra []byte
		if strings.HasPrefix(c.Append, "instance:") {
			extra, err = os.ReadFile(filepath.Join(f.dir, "certs", "instance"+strings.TrimPrefix(c.Append, "instance:")+".crt"))
		} else {
			extra, _, err = f.ca.Leaf(vkit.LeafSpec{CN: strings.TrimPrefix(c.Append, "cn:"), NotBefore: time.Now().Add(-time.Hour), NotAfter: time.Now().Add(24 * time.Hour),
				EKU: []x509.ExtKeyUsage{x509.ExtKeyUsageClientAuth}})
		}
		if err != nil {
			return nil, err
		}
		if blk, _ := pem.Decode(extra); blk != nil {
			pair.Certificate = append(pair.Certificate, blk.Bytes)
		}
	}
	f.creds[k] = &pair

	return &pair, nil
}

// Config is what varies between daemons.
type Config struct {
	AdminIPs    []string                       `json:"admin_ips"`
	Permissions map[string]map[string][]string `json:"permissions"` // client -> path -> operations
	// Instance >= 0 makes the daemon member Instance of a cluster: it is called InstanceName(Instance),
	// listens on that loopback address, has server id Instance+1 and knows Peers (id -> host:port).
	Instance int               `json:"instance"`
	Cluster  bool              `json:"cluster,omitempty"`
	Peers    map[string]string `json:"peers,omitempty"`
	Port     string            `json:"port,omitempty"`
	// RelStorage: storage-path is given relative ("protection"), which Dirk resolves against the base
	// directory; every start of the process then happens from a different working directory.
	RelStorage bool `json:"relative_storage_path,omitempty"`
	// BigStore: the protection store starts out holding records of 1500 other validators (so that anything
	// the daemon does to the whole store at start-up takes a noticeable time)
	BigStore bool `json:"big_store,omitempty"`
	// GenerationTimeout, if set, is written as process.generation-timeout (for example "2s")
	GenerationTimeout string `json:"generation_timeout,omitempty"`
}

var (
	bigOnce sync.Once
	bigDir  string
	bigErr  error
)

// bigStore builds (once per process) a protection store with 1500 foreign records.
func bigStore() (string, error) {
	bigOnce.Do(func() {
		vkit.Init()
		bigDir, bigErr = os.MkdirTemp("", "e2e-bigstore")
		if bigErr != nil {
			return
		}
		ctx, cancel := context.WithCancel(context.Background())
		defer cancel()
		svc, err := standardrules.New(ctx, standardrules.WithStoragePath(bigDir))
		if err != nil {
			bigErr = err

			return
		}
		in := map[[48]byte]*rules.SlashingProtection{}
		for i := 0; i < 1500; i++ {
			var k [48]byte
			h := sha256.Sum256([]byte(fmt.Sprintf("foreign validator %d", i)))
			copy(k[:], h[:])
			copy(k[32:], h[:16])
			in[k] = &rules.SlashingProtection{PubKey: append([]byte{}, k[:]...), HighestProposedSlot: int64(100 + i), HighestAttestedSourceEpoch: int64(3 + i%7), HighestAttestedTargetEpoch: int64(11 + i%7)}
		}
		if err := svc.ImportSlashingProtection(ctx, in); err != nil {
			bigErr = err
		}
		if err := svc.Close(ctx); err != nil && bigErr == nil {
			bigErr = err
		}
	})

	return bigDir, bigErr
}

// Daemon is one running dirk process on its own copy of the fixture.
type Daemon struct {
	f      *fixture
	Dir    string
	Addr   string
	cfg    *Config
	name   string
	starts int
	cmd    *exec.Cmd
	exited chan error
	log    string
}

func freePort() (string, error) { return FreePortOn("127.0.0.1") }

// FreePortOn finds a free TCP port on the host.
func FreePortOn(host string) (string, error) {
	l, err := net.Listen("tcp", host+":0")
	if err != nil {
		return "", err
	}
	defer l.Close()

	return l.Addr().String(), nil
}

// NewDaemon copies the fixture and starts dirk on it.
func NewDaemon(cfg *Config) (*Daemon, error) {
	f, err := getFixture()
	if err != nil {
		return nil, err
	}
	dir, err := os.MkdirTemp("", "e2e-daemon")
	if err != nil {
		return nil, err
	}
	if err := copyDir(f.dir, dir); err != nil {
		return nil, err
	}
	if cfg.BigStore && !cfg.RelStorage {
		tmpl, err := bigStore()
		if err != nil {
			return nil, err
		}
		if err := copyDir(tmpl, filepath.Join(dir, "storage")); err != nil {
			return nil, err
		}
	}
	d := &Daemon{f: f, Dir: dir, cfg: cfg, log: filepath.Join(dir, "dirk.log")}
	if err := d.Start(); err != nil {
		d.Close()

		return nil, err
	}

	return d, nil
}

func fileURL(p string) string { return "file://" + p }

// Start writes the configuration (fresh port) and starts the process.
func (d *Daemon) Start() error {
	bin := os.Getenv("VERIF_DIRK")
	if bin == "" {
		return fmt.Errorf("VERIF_DIRK is not set")
	}
	var lastErr error
	for attempt := 0; attempt < 5; attempt++ {
		addr, err := freePort()
		if err != nil {
			return err
		}
		name, id, crt, peers := ServerName, "1", "server", map[string]any{"1": ServerName + ":" + addr[len("127.0.0.1:"):]}
		if d.cfg.Cluster {
			// fixed address for the life of the cluster (the peers know it)
			name, id, crt = InstanceName(d.cfg.Instance), fmt.Sprint(d.cfg.Instance+1), fmt.Sprintf("instance%d", d.cfg.Instance)
			addr = name + ":" + d.cfg.Port
			peers = map[string]any{}
			for k, v := range d.cfg.Peers {
				peers[k] = v
			}
		}
		d.Addr, d.name = addr, name
		storagePath := filepath.Join(d.Dir, "storage")
		if d.cfg.RelStorage {
			storagePath = "protection"
		}
		processCfg := map[string]any{"generation-passphrase": fileURL(filepath.Join(d.Dir, "pass.txt"))}
		if d.cfg.GenerationTimeout != "" {
			processCfg["generation-timeout"] = d.cfg.GenerationTimeout
		}
		doc := map[string]any{
			"log-level": "warn",
			"log-file":  d.log,
			"server": map[string]any{"id": id, "name": name, "listen-address": addr,
				"rules": map[string]any{"admin-ips": d.cfg.AdminIPs}},
			"certificates": map[string]any{"server-cert": fileURL(filepath.Join(d.Dir, "certs", crt+".crt")), "server-key": fileURL(filepath.Join(d.Dir, "certs", crt+".key")),
				"ca-cert": fileURL(filepath.Join(d.Dir, "certs", "ca.crt"))},
			"storage-path": storagePath,
			"stores": []any{map[string]any{"name": "Local", "type": "filesystem", "location": filepath.Join(d.Dir, "wallets")},
				map[string]any{"name": "Second", "type": "filesystem", "location": filepath.Join(d.Dir, "wallets2")}},
			"peers":       peers,
			"unlocker":    map[string]any{"account-passphrases": []string{fileURL(filepath.Join(d.Dir, "pass.txt"))}},
			"process":     processCfg,
			"permissions": d.cfg.Permissions,
		}
		b, _ := json.MarshalIndent(doc, "", " ")
		if err := os.WriteFile(filepath.Join(d.Dir, "dirk.json"), b, 0o600); err != nil {
			return err
		}
		cmd := exec.Command(bin, "--base-dir", d.Dir)
		cmd.Env = append(os.Environ(), "HOME="+d.Dir)
		if d.cfg.RelStorage {
			d.starts++
			cmd.Dir = filepath.Join(d.Dir, fmt.Sprintf("cwd%d", d.starts))
			_ = os.MkdirAll(cmd.Dir, 0o700)
		}
		out, err := os.OpenFile(filepath.Join(d.Dir, "stdout.log"), os.O_CREATE|os.O_WRONLY|os.O_APPEND, 0o600)
		if err != nil {
			return err
		}
		cmd.Stdout, cmd.Stderr = out, out
		if err := cmd.Start(); err != nil {
			out.Close()

			return err
		}
		out.Close()
		exited := make(chan error, 1)
		go func() { exited <- cmd.Wait() }()
		deadline := time.Now().Add(20 * time.Second)
		up, foreign := false, false
		for time.Now().Before(deadline) {
			select {
			case err := <-exited:
				lastErr = fmt.Errorf("dirk exited during start-up: %v: %s", err, d.Logs())
				deadline = time.Now()

				continue
			default:
			}
			c, err := net.DialTimeout("tcp", addr, 200*time.Millisecond)
			if err == nil {
				c.Close()
				// somebody listens: make sure it is this daemon (another test process may have taken the
				// port between our probe and the daemon's bind) by checking the server's certificate
				pool := x509.NewCertPool()
				pool.AppendCertsFromPEM(d.f.ca.CertPEM)
				pool.AppendCertsFromPEM(d.f.server.CertPEM)
				tc, terr := tls.DialWithDialer(&net.Dialer{Timeout: time.Second}, "tcp", addr, &tls.Config{RootCAs: pool, ServerName: name, MinVersion: tls.VersionTLS13})
				if terr == nil {
					tc.Close()
					time.Sleep(30 * time.Millisecond)
					select {
					case err := <-exited:
						foreign = true
						lastErr = fmt.Errorf("dirk exited during start-up (port taken by another process?): %v: %s", err, d.Logs())
					default:
						up = true
					}

					break
				}
				var uae x509.UnknownAuthorityError
				var cve *tls.CertificateVerificationError
				if errors.As(terr, &uae) || errors.As(terr, &cve) {
					foreign = true
					lastErr = fmt.Errorf("port %s is served by another process: %v", addr, terr)

					break
				}
			}
			time.Sleep(15 * time.Millisecond)
		}
		if foreign {
			_ = cmd.Process.Kill()
			select {
			case <-exited:
			case <-time.After(5 * time.Second):
			}
			if d.cfg.Cluster {
				return ErrPortTaken
			}

			continue
		}
		if up {
			d.cmd, d.exited = cmd, exited

			return nil
		}
		if lastErr == nil {
			lastErr = fmt.Errorf("dirk did not listen on %s within 20 s: %s", addr, d.Logs())
			_ = cmd.Process.Kill()
			<-exited
		}
	}

	return lastErr
}

// ErrPortTaken reports that a cluster member's fixed port was taken by another process; the caller picks new ports.
var ErrPortTaken = errors.New("port taken by another process")

// Logs returns the tail of the daemon's output.
func (d *Daemon) Logs() string {
	var out string
	for _, n := range []string{"stdout.log", "dirk.log"} {
		b, _ := os.ReadFile(filepath.Join(d.Dir, n))
		if len(b) > 1500 {
			b = b[len(b)-1500:]
		}
		out += string(b)
	}

	return out
}

// Alive reports whether the process is still running.
func (d *Daemon) Alive() bool {
	if d.cmd == nil {
		return false
	}
	select {
	case err := <-d.exited:
		d.exited <- err // keep it for Stop

		return false
	default:
		return true
	}
}

// Stop ends the process: with SIGKILL, or with SIGTERM and a grace period.
func (d *Daemon) Stop(kill bool) {
	if d.cmd == nil || d.cmd.Process == nil {
		return
	}
	if kill {
		_ = d.cmd.Process.Kill()
	} else {
		_ = d.cmd.Process.Signal(syscall.SIGTERM)
	}
	select {
	case <-d.exited:
	case <-time.After(10 * time.Second):
		_ = d.cmd.Process.Kill()
		<-d.exited
	}
	d.cmd = nil
}

// Close stops the daemon and removes its directory.
func (d *Daemon) Close() {
	d.Stop(true)
	_ = os.RemoveAll(d.Dir)
}

// Dial opens a connection presenting the credential.
func (d *Daemon) Dial(c Cred) (*grpc.ClientConn, error) {
	pool := x509.NewCertPool()
	pool.AppendCertsFromPEM(d.f.ca.CertPEM)
	pool.AppendCertsFromPEM(d.f.server.CertPEM)
	cfg := &tls.Config{RootCAs: pool, ServerName: d.name, MinVersion: tls.VersionTLS13}
	if c.Issuer != "" {
		pair, err := d.f.clientCert(c)
		if err != nil {
			return nil, err
		}
		cfg.GetClientCertificate = func(*tls.CertificateRequestInfo) (*tls.Certificate, error) { return pair, nil }
	}

	return grpc.NewClient(d.Addr, grpc.WithTransportCredentials(credentials.NewTLS(cfg)))
}

// Invoke makes one unary call on a fresh connection; md is request metadata the caller adds (key, value, ...).
func (d *Daemon) Invoke(c Cred, method string, req, resp any, md ...string) error {
	conn, err := d.Dial(c)
	if err != nil {
		return err
	}
	defer conn.Close()
	ctx, cancel := context.WithTimeout(context.Background(), 20*time.Second)
	defer cancel()
	if len(md) > 0 {
		ctx = metadata.AppendToOutgoingContext(ctx, md...)
	}

	return conn.Invoke(ctx, method, req, resp)
}
