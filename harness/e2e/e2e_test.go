package e2e

import (
	"encoding/binary"
	"encoding/json"
	"fmt"
	"os"
	"sort"
	"strings"
	"sync"
	"testing"
	"time"

	pb "github.com/wealdtech/eth2-signer-api/pb/v1"
	"pgregory.net/rapid"

	"verif/harness/vkit"
)

// Step is one action against the running daemon.
type Step struct {
	Kind string `json:"kind"` // attest | attests | propose | sign | multisign | list | lock | unlock | create | restart-kill | restart-term
	// Client: alice | bob | carol (no permissions) - certificates from the configured authority; mallory (the name alice on a
	// certificate from another authority) | trudy (self-signed, named alice) | servant (named alice, signed with the server's
	// own certificate key) | none (no certificate); nocn (from the configured authority, empty subject, DNS name alice) |
	// longcn (from the configured authority, a 200-character name) | nosubject (from the configured authority, empty subject, no
	// alternative names) | carol+alice (carol's certificate and key with alice's certificate appended to the presented chain)
	Client string `json:"client"`
	// Spoof: the caller adds metadata naming alice and an administrator address (nothing lets such claims count)
	Spoof bool   `json:"spoof,omitempty"`
	Accs  []int  `json:"accs,omitempty"`
	ByKey bool   `json:"by_key,omitempty"`
	Src   uint64 `json:"src,omitempty"`
	Tgt   uint64 `json:"tgt,omitempty"`
	Slot  uint64 `json:"slot,omitempty"`
	Root  int    `json:"root,omitempty"`
	Dom   string `json:"dom,omitempty"` // own (the endpoint's proper type) | generic | attester | proposer | exit
}

// Case is a daemon configuration and a history.
type Case struct {
	AdminIPs []string                       `json:"admin_ips"`
	Perms    map[string]map[string][]string `json:"permissions"`
	// RelStorage: relative storage-path, and every start of the daemon from another working directory
	RelStorage bool `json:"relative_storage_path,omitempty"`
	// BigStore: the protection store starts out with 1500 foreign records (see daemon.go)
	BigStore bool   `json:"big_store,omitempty"`
	Steps    []Step `json:"steps"`
}

func root(a uint64, s byte) []byte {
	r := make([]byte, 32)
	binary.LittleEndian.PutUint64(r, a)
	r[31] = s

	return r
}

func domain(kind string, endpoint string) []byte {
	d := make([]byte, 32)
	d[5] = 7 // some fork data
	switch kind {
	case "own":
		if endpoint == "attest" {
			d[0] = 1
		} else if endpoint == "sign" {
			d[0] = 2
		}
	case "generic":
		d[0] = 2
	case "attester":
		d[0] = 1
	case "proposer":
		d[0] = 0
	case "exit":
		d[0] = 4
	}

	return d
}

// perms converts the case's configuration into the reference evaluator's form.  Every client's
// entries cover disjoint sets of accounts (by construction of the generator), so their order - which
// the configuration file, a map, does not fix - cannot matter.
func perms(c *Case) *vkit.PermConfig {
	pc := &vkit.PermConfig{Clients: map[string][]*vkit.PermEntry{}}
	for client, m := range c.Perms {
		paths := make([]string, 0, len(m))
		for p := range m {
			paths = append(paths, p)
		}
		sort.Strings(paths)
		for _, p := range paths {
			e := &vkit.PermEntry{Ops: m[p]}
			if i := strings.Index(p, "/"); i >= 0 {
				e.Wallet, e.Account = vkit.LitPat(p[:i]), vkit.LitPat(p[i+1:])
			} else {
				e.Wallet = vkit.LitPat(p)
			}
			pc.Clients[client] = append(pc.Clients[client], e)
		}
	}

	return pc
}

// propertyOf maps a violation kind to the property it belongs to.
var propertyOf = map[string]string{
	"slashable-attestation-released": "C01",
	"slashable-proposal-released":    "C02",
	"protection-lost-over-restart":   "C03",
	"wrong-domain-signed":            "C05",
	"exit-signed-without-admin-ip":   "C05",
	"state-and-signature-disagree":   "C06",
	"served-without-permission":      "C07",
	"signature-invalid":              "C08",
	"answer-count":                   "C08",
	"valid-duty-refused":             "C09",
	"listing-wrong":                  "C18",
	"managed-without-permission":     "C07",
	"served-without-ca-certificate":  "C19",
	"daemon-died":                    "C20",
}

type outcome struct {
	released, refused, restarts, foreign, listed, created, managed, races int
	trace                                                                 []string
}

type result struct {
	state string
	sig   []byte
}

func run(c *Case, only string) (*outcome, *vkit.Violation, error) {
	d, err := NewDaemon(&Config{AdminIPs: c.AdminIPs, Permissions: c.Perms, RelStorage: c.RelStorage, BigStore: c.BigStore})
	if err != nil {
		return nil, nil, err
	}
	defer d.Close()
	o := &outcome{}
	world := d.f.world
	pc := perms(c)
	hist := vkit.NewHistory()
	model := vkit.NewModel()
	adminLocal := false
	for _, ip := range c.AdminIPs {
		if ip == "127.0.0.1" {
			adminLocal = true
		}
	}
	restartedSince := map[string]bool{}
	created := map[string]string{} // wallet/name -> hex public key, accounts created through the daemon
	var dyn []*vkit.AccountInfo
	var viol *vkit.Violation
	report := func(kind string, format string, args ...any) {
		if viol != nil {
			return
		}
		if _, ok := propertyOf[kind]; !ok {
			panic("violation kind without a property: " + kind)
		}
		if only != "" && only != "ALL" && propertyOf[kind] != only {
			return
		}
		viol = vkit.Violf(kind, format, args...)
	}
	for si := range c.Steps {
		s := &c.Steps[si]
		where := fmt.Sprintf("step %d %+v", si, *s)
		if s.Kind == "restart-kill" || s.Kind == "restart-term" {
			d.Stop(s.Kind == "restart-kill")
			if err := d.Start(); err != nil {
				return o, nil, err
			}
			o.restarts++
			for k := range model.Keys {
				restartedSince[k] = true
			}
			o.trace = append(o.trace, s.Kind)

			continue
		}
		if s.Kind == "burst" {
			// several callers, some never seen before, at the same moment: only survival is judged
			var wg sync.WaitGroup
			for bi, cl := range []string{"alice", "bob", "carol", fmt.Sprintf("dave%d", si), fmt.Sprintf("erin%d", si), "nocn", "longcn", "mallory"} {
				wg.Add(1)
				go func(bi int, cl string) {
					defer wg.Done()
					cr, ok := credOf(cl)
					if !ok && cl != "mallory" {
						cr = Cred{CN: cl, Issuer: "ca"}
					}
					if bi%2 == 0 {
						_ = d.Invoke(cr, "/v1.Lister/ListAccounts", &pb.ListAccountsRequest{Paths: []string{WA, WB, WC}}, &pb.ListAccountsResponse{})
					} else {
						_ = d.Invoke(cr, "/v1.Signer/Sign", &pb.SignRequest{Id: &pb.SignRequest_Account{Account: WA + "/a"}, Data: root(uint64(si), 7), Domain: domain("generic", "sign")}, &pb.SignResponse{})
					}
				}(bi, cl)
			}
			wg.Wait()
			o.trace = append(o.trace, "burst")
			if !d.Alive() {
				report("daemon-died", "%s: the daemon process is gone after a burst of simultaneous first requests: %s", where, d.Logs())
				if viol != nil {
					return o, viol, nil
				}

				return o, nil, fmt.Errorf("%s: daemon died: %s", where, d.Logs())
			}

			continue
		}
		if s.Kind == "pause" {
			time.Sleep(3 * time.Second)
			o.trace = append(o.trace, "pause")

			continue
		}
		if s.Kind == "race" {
			// the same request (one attestation, or one generic signature) from several callers at the same
			// moment; every answer is judged for the caller it went to
			a := world.Accounts[s.Accs[0]%len(world.Accounts)]
			key := fmt.Sprintf("%x", a.PubKey)
			racers := []string{"alice", "carol", "bob", "mallory", "alice"}
			type ans struct {
				state string
				sig   []byte
				err   error
			}
			answers := make([]ans, len(racers))
			var att *vkit.Att
			var sigRoot [32]byte
			op := "Sign"
			if s.Dom == "own" {
				op = "Sign beacon attestation"
				dom := domain("attester", "attest")
				att = &vkit.Att{Slot: 1, BlockRoot: root(uint64(s.Root), 1), SrcEpoch: s.Src, SrcRoot: root(0, 2), TgtEpoch: s.Tgt, TgtRoot: root(0, 3), Domain: dom}
				sigRoot = vkit.SigningRoot(vkit.AttDataRoot(att), dom)
			} else {
				var d32 [32]byte
				copy(d32[:], root(uint64(s.Root), 7))
				sigRoot = vkit.SigningRoot(d32, domain("generic", "sign"))
			}
			var wg sync.WaitGroup
			for ri, cl := range racers {
				wg.Add(1)
				go func(ri int, cl string) {
					defer wg.Done()
					cr, _ := credOf(cl)
					resp := &pb.SignResponse{}
					if att != nil {
						answers[ri].err = d.Invoke(cr, "/v1.Signer/SignBeaconAttestation", &pb.SignBeaconAttestationRequest{Id: &pb.SignBeaconAttestationRequest_Account{Account: a.Path()}, Domain: att.Domain,
							Data: &pb.AttestationData{Slot: 1, BeaconBlockRoot: att.BlockRoot, Source: &pb.Checkpoint{Epoch: att.SrcEpoch, Root: att.SrcRoot}, Target: &pb.Checkpoint{Epoch: att.TgtEpoch, Root: att.TgtRoot}}}, resp)
					} else {
						answers[ri].err = d.Invoke(cr, "/v1.Signer/Sign", &pb.SignRequest{Id: &pb.SignRequest_Account{Account: a.Path()}, Data: root(uint64(s.Root), 7), Domain: domain("generic", "sign")}, resp)
					}
					answers[ri].state, answers[ri].sig = resp.GetState().String(), resp.GetSignature()
				}(ri, cl)
			}
			wg.Wait()
			o.races++
			anyReleased := false
			for ri, cl := range racers {
				an := answers[ri]
				released := len(an.sig) > 0
				cr, trusted := credOf(cl)
				if released != (an.state == "SUCCEEDED" && an.err == nil) {
					report("state-and-signature-disagree", "%s: the answer to %s has state %s and %d signature bytes", where, cl, an.state, len(an.sig))
				}
				if !released {
					continue
				}
				switch {
				case !trusted:
					report("served-without-ca-certificate", "%s: %s (no certificate from the configured authority) was given a signature", where, cl)
				case !pc.Allowed(cr.CN, a.Wallet, a.Name, op):
					report("served-without-permission", "%s: %s was given a signature for %s although its permissions refuse %q (sent at the same moment as the same request from other callers)", where, cl, a.Path(), op)
				}
				if err := vkit.VerifySig(a.PubKey, sigRoot, an.sig); err != nil {
					report("signature-invalid", "%s: the signature given to %s does not verify: %v", where, cl, err)
				}
				anyReleased = true
			}
			if anyReleased && att != nil {
				o.released++
				if why, bad := hist.AddAtt(key, att); bad {
					report("slashable-attestation-released", "%s: %s", where, why)
				}
				model.ApplyAtt(key, att)
			}
			o.trace = append(o.trace, fmt.Sprintf("race %s %s -> %v", op, a.Path(), answers))
			if !d.Alive() {
				report("daemon-died", "%s: the daemon process is gone: %s", where, d.Logs())
			}
			if viol != nil {
				return o, viol, nil
			}

			continue
		}
		cred, trusted := credOf(s.Client)
		named := s.Client == "alice" || s.Client == "bob" || s.Client == "carol" || s.Client == "carol+alice"
		who := cred.CN // the name permission decisions must use for a caller with a certificate from the authority
		var md []string
		if s.Spoof {
			claimed := "10.1.2.3"
			for _, ip := range c.AdminIPs {
				if ip != "127.0.0.1" {
					claimed = ip // claim to come from an address that is on the administrator list
				}
			}
			md = []string{"client-name", "alice", "x-client-name", "alice", "x-forwarded-for", claimed, "x-real-ip", claimed, "x-forwarded-client-cert", "Subject=\"CN=alice\""}
		}
		if !trusted {
			o.foreign++
		}
		var accs []*vkit.AccountInfo
		taken := map[string]bool{}
		for _, ai := range s.Accs {
			// indices past the fixture's accounts address accounts created through the daemon, once there are any
			var a *vkit.AccountInfo
			if nb := len(world.Accounts); ai < 0 && len(dyn) > 0 {
				a = dyn[len(dyn)-1] // the account created most recently through the daemon
			} else if ai < 0 {
				a = world.Accounts[0]
			} else if ai >= nb && len(dyn) > 0 {
				a = dyn[(ai-nb)%len(dyn)]
			} else {
				a = world.Accounts[ai%nb]
			}
			if taken[a.Path()] {
				continue // one request never names an account twice here (Dirk refuses such a batch as a whole)
			}
			taken[a.Path()] = true
			accs = append(accs, a)
		}
		var results []result
		var rpcErr error
		switch s.Kind {
		case "attest", "attests":
			mk := func(a *vkit.AccountInfo) *pb.SignBeaconAttestationRequest {
				r := &pb.SignBeaconAttestationRequest{Domain: domain(s.Dom, "attest"), Data: &pb.AttestationData{Slot: 1, BeaconBlockRoot: root(uint64(s.Root), 1),
					Source: &pb.Checkpoint{Epoch: s.Src, Root: root(0, 2)}, Target: &pb.Checkpoint{Epoch: s.Tgt, Root: root(0, 3)}}}
				if s.ByKey {
					r.Id = &pb.SignBeaconAttestationRequest_PublicKey{PublicKey: a.PubKey}
				} else {
					r.Id = &pb.SignBeaconAttestationRequest_Account{Account: a.Path()}
				}

				return r
			}
			if s.Kind == "attest" {
				resp := &pb.SignResponse{}
				rpcErr = d.Invoke(cred, "/v1.Signer/SignBeaconAttestation", mk(accs[0]), resp, md...)
				results = []result{{resp.GetState().String(), resp.GetSignature()}}
			} else {
				req := &pb.SignBeaconAttestationsRequest{}
				for _, a := range accs {
					req.Requests = append(req.Requests, mk(a))
				}
				resp := &pb.MultisignResponse{}
				rpcErr = d.Invoke(cred, "/v1.Signer/SignBeaconAttestations", req, resp, md...)
				for _, r := range resp.GetResponses() {
					results = append(results, result{r.GetState().String(), r.GetSignature()})
				}
			}
		case "propose":
			r := &pb.SignBeaconProposalRequest{Domain: domain(s.Dom, "propose"), Data: &pb.BeaconBlockHeader{Slot: s.Slot, ProposerIndex: 5, ParentRoot: root(uint64(s.Root), 4), StateRoot: root(0, 5), BodyRoot: root(0, 6)}}
			if s.ByKey {
				r.Id = &pb.SignBeaconProposalRequest_PublicKey{PublicKey: accs[0].PubKey}
			} else {
				r.Id = &pb.SignBeaconProposalRequest_Account{Account: accs[0].Path()}
			}
			resp := &pb.SignResponse{}
			rpcErr = d.Invoke(cred, "/v1.Signer/SignBeaconProposal", r, resp, md...)
			results = []result{{resp.GetState().String(), resp.GetSignature()}}
		case "sign", "multisign":
			mk := func(a *vkit.AccountInfo) *pb.SignRequest {
				r := &pb.SignRequest{Data: root(uint64(s.Root), 7), Domain: domain(s.Dom, "sign")}
				if s.ByKey {
					r.Id = &pb.SignRequest_PublicKey{PublicKey: a.PubKey}
				} else {
					r.Id = &pb.SignRequest_Account{Account: a.Path()}
				}

				return r
			}
			if s.Kind == "sign" {
				resp := &pb.SignResponse{}
				rpcErr = d.Invoke(cred, "/v1.Signer/Sign", mk(accs[0]), resp, md...)
				results = []result{{resp.GetState().String(), resp.GetSignature()}}
			} else {
				req := &pb.MultisignRequest{}
				for _, a := range accs {
					req.Requests = append(req.Requests, mk(a))
				}
				resp := &pb.MultisignResponse{}
				rpcErr = d.Invoke(cred, "/v1.Signer/Multisign", req, resp, md...)
				for _, r := range resp.GetResponses() {
					results = append(results, result{r.GetState().String(), r.GetSignature()})
				}
			}
		case "lock", "unlock", "create":
			a := accs[0]
			var state string
			var op, target string
			var pub []byte
			switch s.Kind {
			case "lock":
				resp := &pb.LockAccountResponse{}
				rpcErr = d.Invoke(cred, "/v1.AccountManager/Lock", &pb.LockAccountRequest{Account: a.Path()}, resp, md...)
				state, op, target = resp.GetState().String(), "Lock account", a.Name
			case "unlock":
				resp := &pb.UnlockAccountResponse{}
				rpcErr = d.Invoke(cred, "/v1.AccountManager/Unlock", &pb.UnlockAccountRequest{Account: a.Path(), Passphrase: []byte(vkit.DefaultPassphrase)}, resp, md...)
				state, op, target = resp.GetState().String(), "Unlock account", a.Name
			default:
				target = fmt.Sprintf("made%d", si)
				resp := &pb.GenerateResponse{}
				rpcErr = d.Invoke(cred, "/v1.AccountManager/Generate", &pb.GenerateRequest{Account: a.Wallet + "/" + target, Passphrase: []byte(vkit.DefaultPassphrase), Participants: 1, SigningThreshold: 1}, resp, md...)
				state, op, pub = resp.GetState().String(), "Create account", resp.GetPublicKey()
			}
			o.trace = append(o.trace, fmt.Sprintf("%s %s %s/%s -> %s err=%v", s.Kind, s.Client, a.Wallet, target, state, rpcErr != nil))
			ok := rpcErr == nil && state == "SUCCEEDED"
			switch {
			case !trusted && ok:
				report("served-without-ca-certificate", "%s: %s on %s/%s succeeded for a caller without a certificate from the configured authority", where, op, a.Wallet, target)
			case trusted && rpcErr != nil && named:
				return o, nil, fmt.Errorf("%s: transport error for a trusted client: %v: %s", where, rpcErr, d.Logs())
			case ok && !pc.Allowed(who, a.Wallet, target, op):
				report("managed-without-permission", "%s: %q on %s/%s succeeded although the permissions of %s refuse it", where, op, a.Wallet, target, s.Client)
			}
			if ok && s.Kind == "create" {
				created[a.Wallet+"/"+target] = fmt.Sprintf("%x", pub)
				dyn = append(dyn, &vkit.AccountInfo{Wallet: a.Wallet, Name: target, PubKey: pub})
				o.created++
			}
			if ok {
				o.managed++
			}
		case "list":
			resp := &pb.ListAccountsResponse{}
			rpcErr = d.Invoke(cred, "/v1.Lister/ListAccounts", &pb.ListAccountsRequest{Paths: []string{WA, WB, WC}}, resp, md...)
			got := map[string]string{}
			for _, a := range resp.GetAccounts() {
				got[a.GetName()] = fmt.Sprintf("%x", a.GetPublicKey())
			}
			o.trace = append(o.trace, fmt.Sprintf("list %s -> %d accounts err=%v", s.Client, len(got), rpcErr != nil))
			if !trusted {
				if len(got) > 0 {
					report("served-without-ca-certificate", "%s: %d accounts were listed to a caller without a certificate from the configured authority", where, len(got))
				}

				break
			}
			if rpcErr != nil && !named {
				break // a certificate of the authority with an odd subject may be turned away with an error
			}
			if rpcErr != nil {
				return o, nil, fmt.Errorf("%s: transport error for a trusted client: %v: %s", where, rpcErr, d.Logs())
			}
			o.listed++
			for path, pk := range created {
				i := strings.Index(path, "/")
				want := pc.Allowed(who, path[:i], path[i+1:], "Access account")
				gpk, have := got[path]
				switch {
				case want && !have:
					report("listing-wrong", "%s: %s was created through the daemon and is accessible to %s but was not listed", where, path, s.Client)
				case !want && have:
					report("listing-wrong", "%s: %s was listed although %s may not access it", where, path, s.Client)
				case have && gpk != pk:
					report("listing-wrong", "%s: %s was listed with public key %s, created with %s", where, path, gpk, pk)
				}
			}
			for name := range got {
				known := false
				for _, a := range world.Accounts {
					known = known || a.Path() == name
				}
				if _, ok := created[name]; !ok && !known {
					report("listing-wrong", "%s: %s was listed but no such account exists", where, name)
				}
			}
			for _, a := range world.Accounts {
				want := pc.Allowed(who, a.Wallet, a.Name, "Access account")
				pk, have := got[a.Path()]
				switch {
				case want && !have:
					report("listing-wrong", "%s: %s is accessible to %s but was not listed", where, a.Path(), s.Client)
				case !want && have:
					report("listing-wrong", "%s: %s was listed although %s may not access it", where, a.Path(), s.Client)
				case have && pk != fmt.Sprintf("%x", a.PubKey):
					report("listing-wrong", "%s: %s was listed with public key %s", where, a.Path(), pk)
				}
			}
		}
		if !d.Alive() {
			report("daemon-died", "%s: the daemon process is gone: %s", where, d.Logs())
			if viol != nil {
				return o, viol, nil
			}

			return o, nil, fmt.Errorf("%s: daemon died: %s", where, d.Logs())
		}
		if s.Kind == "list" || s.Kind == "lock" || s.Kind == "unlock" || s.Kind == "create" {
			if viol != nil {
				return o, viol, nil
			}

			continue
		}
		states := make([]string, len(results))
		for i, r := range results {
			states[i] = r.state
		}
		o.trace = append(o.trace, fmt.Sprintf("%s %s %v -> %v err=%v", s.Kind, s.Client, s.Accs, states, rpcErr != nil))
		if !trusted {
			for i, r := range results {
				if len(r.sig) > 0 || r.state == "SUCCEEDED" {
					report("served-without-ca-certificate", "%s: position %d was answered %s with %d signature bytes to a caller without a certificate from the configured authority", where, i, r.state, len(r.sig))
				}
			}
			if viol != nil {
				return o, viol, nil
			}

			continue
		}
		if rpcErr != nil && !named {
			continue // a certificate of the authority with an odd subject may be turned away with an error
		}
		if rpcErr != nil {
			return o, nil, fmt.Errorf("%s: transport error for a trusted client: %v: %s", where, rpcErr, d.Logs())
		}
		if len(results) != len(accs) {
			report("answer-count", "%s: %d answers for %d requests", where, len(results), len(accs))
			if viol != nil {
				return o, viol, nil
			}

			continue
		}
		// a batch is only promised to be signed position by position when every entry is authorised
		allAllowed := true
		for _, a := range accs {
			op := "Sign"
			switch s.Kind {
			case "attest", "attests":
				op = "Sign beacon attestation"
			case "propose":
				op = "Sign beacon proposal"
			}
			if !pc.Allowed(who, a.Wallet, a.Name, op) {
				allAllowed = false
			}
		}
		for i, r := range results {
			a := accs[i]
			key := fmt.Sprintf("%x", a.PubKey)
			released := len(r.sig) > 0
			if released != (r.state == "SUCCEEDED") {
				report("state-and-signature-disagree", "%s: position %d has state %s and %d signature bytes", where, i, r.state, len(r.sig))
			}
			var op string
			var sigRoot [32]byte
			var dom []byte
			slashOK, properDomain := true, true
			var att *vkit.Att
			var prop *vkit.Prop
			switch s.Kind {
			case "attest", "attests":
				op, dom = "Sign beacon attestation", domain(s.Dom, "attest")
				att = &vkit.Att{Slot: 1, BlockRoot: root(uint64(s.Root), 1), SrcEpoch: s.Src, SrcRoot: root(0, 2), TgtEpoch: s.Tgt, TgtRoot: root(0, 3), Domain: dom}
				sigRoot = vkit.SigningRoot(vkit.AttDataRoot(att), dom)
				properDomain = dom[0] == 1
			case "propose":
				op, dom = "Sign beacon proposal", domain(s.Dom, "propose")
				prop = &vkit.Prop{Slot: s.Slot, ProposerIndex: 5, ParentRoot: root(uint64(s.Root), 4), StateRoot: root(0, 5), BodyRoot: root(0, 6), Domain: dom}
				sigRoot = vkit.SigningRoot(vkit.PropDataRoot(prop), dom)
				properDomain = dom[0] == 0
			default:
				op, dom = "Sign", domain(s.Dom, "sign")
				var d32 [32]byte
				copy(d32[:], root(uint64(s.Root), 7))
				sigRoot = vkit.SigningRoot(d32, dom)
				properDomain = dom[0] != 0 && dom[0] != 1 && (dom[0] != 4 || adminLocal)
			}
			allowed := pc.Allowed(who, a.Wallet, a.Name, op)
			// what the slashing rules say, on the model
			if att != nil && properDomain && allowed {
				slashOK = model.AttVerdict(key, att)
			}
			if prop != nil && properDomain && allowed {
				slashOK = model.PropVerdict(key, prop)
			}
			if released {
				o.released++
				if !allowed {
					report("served-without-permission", "%s: position %d (%s) was signed although the permissions of %s refuse %q", where, i, a.Path(), s.Client, op)
				}
				if err := vkit.VerifySig(a.PubKey, sigRoot, r.sig); err != nil {
					report("signature-invalid", "%s: position %d (%s): the signature does not verify under the account's key over the submitted data: %v", where, i, a.Path(), err)
				}
				switch {
				case att != nil && dom[0] != 1, prop != nil && dom[0] != 0:
					report("wrong-domain-signed", "%s: position %d: the %s endpoint signed under domain type %x", where, i, s.Kind, dom[:4])
				case att == nil && prop == nil && (dom[0] == 0 || dom[0] == 1):
					report("wrong-domain-signed", "%s: position %d: the generic endpoint signed under domain type %x", where, i, dom[:4])
				case att == nil && prop == nil && dom[0] == 4 && !adminLocal:
					report("exit-signed-without-admin-ip", "%s: position %d: a voluntary-exit domain was signed for a caller at 127.0.0.1, administrator addresses %v", where, i, c.AdminIPs)
				}
				if att != nil {
					if why, bad := hist.AddAtt(key, att); bad {
						kind := "slashable-attestation-released"
						if restartedSince[key] {
							report("protection-lost-over-restart", "%s: position %d (%s): %s, after a restart of the daemon", where, i, a.Path(), why)
						}
						report(kind, "%s: position %d (%s): %s", where, i, a.Path(), why)
					}
					model.ApplyAtt(key, att)
				}
				if prop != nil {
					if why, bad := hist.AddProp(key, prop); bad {
						if restartedSince[key] {
							report("protection-lost-over-restart", "%s: position %d (%s): %s, after a restart of the daemon", where, i, a.Path(), why)
						}
						report("slashable-proposal-released", "%s: position %d (%s): %s", where, i, a.Path(), why)
					}
					model.ApplyProp(key, prop)
				}
			} else {
				o.refused++
				if allowed && allAllowed && properDomain && slashOK && r.state != "SUCCEEDED" && (att != nil || prop != nil) {
					report("valid-duty-refused", "%s: position %d (%s): a permitted, well-formed, advancing duty was answered %s", where, i, a.Path(), r.state)
				}
			}
		}
		if viol != nil {
			return o, viol, nil
		}
	}

	return o, nil, nil
}

var focusOps = []string{"Sign", "Sign beacon attestation", "Sign beacon proposal", "Access account", "Access account", "Lock account", "Unlock account", "Create account"}

func credOf(client string) (Cred, bool) {
	switch client {
	case "alice", "bob", "carol":
		return Cred{CN: client, Issuer: "ca"}, true
	case "nocn":
		return Cred{CN: "", Issuer: "ca", DNS: []string{"alice"}}, true
	case "longcn":
		return Cred{CN: strings.Repeat("alice", 40), Issuer: "ca"}, true
	case "mallory":
		return Cred{CN: "alice", Issuer: "other"}, false
	case "trudy":
		return Cred{CN: "alice", Issuer: "self"}, false
	case "servant":
		return Cred{CN: "alice", Issuer: "server"}, false
	case "nosubject":
		return Cred{CN: "", Issuer: "ca"}, true
	case "carol+alice": // carol's own certificate and key, with alice's certificate appended to the chain
		return Cred{CN: "carol", Issuer: "ca", Append: "cn:alice"}, true
	}

	return Cred{}, false
}

var clientsAll = []string{"alice", "alice", "alice", "alice", "bob", "bob", "carol", "mallory", "none", "trudy", "servant", "nocn", "longcn", "nosubject", "carol+alice", "carol+alice"}

func genPerms(t *rapid.T) map[string]map[string][]string {
	out := map[string]map[string][]string{}
	accounts := map[string][]string{WA: {"a", "b"}, WB: {"a", "c"}, WC: {"a"}}
	for _, client := range []string{"alice", "bob"} {
		m := map[string][]string{}
		for _, w := range []string{WA, WB, WC} {
			kind := rapid.IntRange(0, 3).Draw(t, "entry_kind")
			if client == "alice" && rapid.Bool().Draw(t, "alice_all") {
				kind = 1
			}
			switch kind {
			case 0: // nothing for this wallet
			case 1:
				m[w] = []string{"All"}
			case 2:
				m[w] = vkit.GenOps(t, focusOps)
			default:
				for _, a := range accounts[w] {
					if rapid.Bool().Draw(t, "acc_entry") {
						m[w+"/"+a] = vkit.GenOps(t, focusOps)
					}
				}
			}
		}
		if client == "alice" && len(m) == 0 {
			m[WA] = []string{"All"}
		}
		if len(m) > 0 { // Dirk refuses to start with a client that has no entry; an absent client is simply unknown
			out[client] = m
		}
	}

	return out
}

func genCase(t *rapid.T) *Case {
	c := &Case{AdminIPs: rapid.SampledFrom([][]string{{}, {"127.0.0.1"}, {"10.1.2.3"}, {"10.1.2.3"}, {"10.1.2.3", "127.0.0.1"}, {"127.0.0.11"}, {"192.168.7.7", "127.0.0.2"}}).Draw(t, "admin_ips"), Perms: genPerms(t), RelStorage: rapid.IntRange(0, 2).Draw(t, "rel_storage") == 0}
	c.BigStore = !c.RelStorage && rapid.IntRange(0, 5).Draw(t, "big_store") == 0
	type fl struct{ src, tgt, slot int64 }
	floors := map[int]*fl{}
	floor := func(k int) *fl {
		if floors[k] == nil {
			floors[k] = &fl{0, 0, 0}
		}

		return floors[k]
	}
	n := rapid.IntRange(3, 12).Draw(t, "nsteps")
	var lastDuty *Step
	for i := 0; i < n; i++ {
		k := rapid.IntRange(0, 99).Draw(t, "kind")
		s := Step{Client: rapid.SampledFrom(clientsAll).Draw(t, "client"), ByKey: rapid.Bool().Draw(t, "bykey"), Root: rapid.IntRange(0, 2).Draw(t, "root"), Dom: "own", Spoof: rapid.IntRange(0, 3).Draw(t, "spoof") == 0}
		acc := rapid.IntRange(0, 6).Draw(t, "acc")
		f := floor(acc)
		switch {
		case k < 30:
			s.Kind, s.Accs = "attest", []int{acc}
		case k < 45:
			s.Kind = "attests"
			s.Accs = rapid.Permutation([]int{0, 1, 2, 3, 4, 5}).Draw(t, "accs")[:rapid.IntRange(2, 5).Draw(t, "nacc")]
			f = floor(s.Accs[0])
		case k < 60:
			s.Kind, s.Accs = "propose", []int{acc}
		case k < 70:
			s.Kind, s.Accs = "sign", []int{acc}
		case k < 75:
			s.Kind = "multisign"
			s.Accs = rapid.Permutation([]int{0, 1, 2, 3, 4, 5}).Draw(t, "accs")[:rapid.IntRange(2, 5).Draw(t, "nacc")]
		case k < 84:
			s.Kind, s.Accs = rapid.SampledFrom([]string{"lock", "unlock", "create", "create", "create"}).Draw(t, "manage"), []int{acc}
		case k < 92:
			s.Kind = "list"
		case k < 94:
			s.Kind = "burst"
			if rapid.Bool().Draw(t, "race") {
				s.Kind, s.Accs = "race", []int{acc % 5}
				if rapid.Bool().Draw(t, "race_generic") {
					s.Dom = "generic"
				}
			}
		case k < 99:
			s.Kind = "restart-kill"
		default:
			s.Kind = "restart-term"
		}
		switch s.Kind {
		case "attest", "attests", "race":
			src := f.src + int64(rapid.IntRange(-1, 1).Draw(t, "dsrc"))
			if src < 0 {
				src = 0
			}
			tgt := f.tgt + int64(rapid.IntRange(-1, 2).Draw(t, "dtgt"))
			if tgt <= src {
				tgt = src + 1
			}
			s.Src, s.Tgt = uint64(src), uint64(tgt)
			for _, a := range s.Accs {
				g := floor(a)
				if tgt > g.tgt && src >= g.src {
					g.src, g.tgt = src, tgt
				}
			}
			if rapid.IntRange(0, 9).Draw(t, "wrongdom") == 0 {
				s.Dom = rapid.SampledFrom([]string{"generic", "proposer", "exit"}).Draw(t, "dom")
			}
		case "propose":
			slot := f.slot + int64(rapid.IntRange(-1, 2).Draw(t, "dslot"))
			if slot < 1 {
				slot = 1
			}
			s.Slot = uint64(slot)
			if slot > f.slot {
				f.slot = slot
			}
			if rapid.IntRange(0, 9).Draw(t, "wrongdom") == 0 {
				s.Dom = rapid.SampledFrom([]string{"generic", "attester", "exit"}).Draw(t, "dom")
			}
		case "sign", "multisign":
			s.Dom = rapid.SampledFrom([]string{"generic", "generic", "attester", "proposer", "exit", "exit"}).Draw(t, "dom")
			if s.Dom == "exit" && rapid.Bool().Draw(t, "exit_spoof") {
				s.Spoof = true
			}
		}
		c.Steps = append(c.Steps, s)
		if s.Kind == "attest" || s.Kind == "attests" || s.Kind == "propose" {
			cp := s
			lastDuty = &cp
		}
		if (s.Kind == "restart-kill" || s.Kind == "restart-term") && lastDuty != nil && rapid.IntRange(0, 3).Draw(t, "conflict_after_restart") > 0 {
			// straight after the restart: the last duty again, with other content (refused if it was signed before)
			u := *lastDuty
			u.Root = (u.Root + 1) % 3
			u.Dom, u.Spoof = "own", false
			c.Steps = append(c.Steps, u)
		}
		if s.Kind == "create" && rapid.IntRange(0, 3).Draw(t, "use_created") > 0 {
			// straight away, a duty for the account just created (if the creation was refused this addresses account 0)
			u := Step{Kind: rapid.SampledFrom([]string{"attest", "propose", "attests"}).Draw(t, "use_kind"), Client: s.Client, Accs: []int{-1}, Src: 0, Tgt: 1, Slot: 1, Dom: "own"}
			if u.Kind == "attests" {
				u.Accs = []int{-1, 1, 4}
			}
			c.Steps = append(c.Steps, u)
		}
	}

	if c.BigStore {
		// a case on the large store always ends with: a duty of each kind for an account alice may use,
		// restart, advancing duties, a pause that outlasts anything the daemon may be doing to its whole
		// store, then the same duties with other content
		fixture := [][2]string{{WA, "a"}, {WA, "b"}, {WB, "a"}, {WB, "c"}, {WC, "a"}}
		pc := perms(c)
		for ai, wn := range fixture {
			if !pc.Allowed("alice", wn[0], wn[1], "Sign beacon attestation") || !pc.Allowed("alice", wn[0], wn[1], "Sign beacon proposal") {
				continue
			}
			f := floor(ai)
			base := uint64(f.tgt) + 3
			slot := uint64(f.slot) + 3
			mk := func(kind string, d uint64, rt int) Step {
				return Step{Kind: kind, Client: "alice", Accs: []int{ai}, Src: base + d, Tgt: base + d + 1, Slot: slot + d, Root: rt, Dom: "own"}
			}
			c.Steps = append(c.Steps, mk("attest", 0, 0), mk("propose", 0, 0),
				Step{Kind: rapid.SampledFrom([]string{"restart-term", "restart-kill"}).Draw(t, "big_restart")},
				mk("attest", 2, 0), mk("propose", 2, 0), Step{Kind: "pause"}, mk("attest", 2, 1), mk("propose", 2, 1))

			break
		}
	}

	return c
}

// TestE2E runs generated histories against the real daemon.  VERIF_PROPERTY selects which kinds of
// violation this run reports (each kind belongs to one property; see propertyOf).
func TestE2E(t *testing.T) {
	defer vkit.Flush()
	only := os.Getenv("VERIF_PROPERTY")
	for _, r := range vkit.ReplayFiles("TestE2E") {
		var c Case
		if err := json.Unmarshal(r.Case, &c); err != nil {
			t.Fatalf("bad replay case: %v", err)
		}
		// races, bursts and concurrent deliveries depend on timing: a replay gets five attempts
		for attempt := 0; attempt < 5; attempt++ {
			o, v, err := run(&c, only)
			if err != nil {
				t.Fatalf("replay infrastructure error: %v", err)
			}
			t.Logf("replay: trace=%v", o.trace)
			vkit.Report(t, only, "TestE2E", &c, v)
		}
	}
	if vkit.ReplayOnly() {
		return
	}
	rapid.Check(t, func(rt *rapid.T) {
		c := genCase(rt)
		stop := vkit.Watch(c, 180*time.Second)
		o, v, err := run(c, only)
		stop()
		if err != nil {
			rt.Fatalf("INFRA: %v", err)
		}
		vkit.S.Eval()
		vkit.S.ClassN("e2e:signatures-released-by-the-daemon", o.released)
		vkit.S.ClassN("e2e:requests-refused-by-the-daemon", o.refused)
		vkit.S.ClassN("e2e:daemon-restarts", o.restarts)
		if c.BigStore {
			vkit.S.Class("e2e:daemon-on-a-store-with-1500-foreign-records")
		}
		vkit.S.ClassN("e2e:calls-without-a-certificate-from-the-authority", o.foreign)
		vkit.S.ClassN("e2e:listings", o.listed)
		vkit.S.ClassN("e2e:identical-requests-from-several-callers-at-once", o.races)
		vkit.S.ClassN("e2e:accounts-created-through-the-daemon", o.created)
		vkit.S.ClassN("e2e:lock-unlock-create-operations-carried-out", o.managed)
		if o.released > 0 && o.refused > 0 {
			vkit.S.Nontrivial(c)
		}
		vkit.S.Sample(map[string]any{"case": c, "trace": o.trace}, o.released > 1 && o.refused > 1 && o.restarts > 0)
		vkit.Report(rt, only, "TestE2E", c, v)
	})
}
