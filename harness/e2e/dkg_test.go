package e2e

import (
	"bytes"
	"encoding/json"
	"errors"
	"fmt"
	"os"
	"sort"
	"strings"
	"sync"
	"testing"
	"time"

	pb "github.com/wealdtech/eth2-signer-api/pb/v1"
	"google.golang.org/protobuf/types/known/emptypb"
	"pgregory.net/rapid"

	"verif/harness/vkit"
)

// DKGCase is one distributed key generation on a cluster of real daemons, followed by use of the key.
type DKGCase struct {
	Instances int    `json:"instances"` // 2..4 daemons
	N         uint32 `json:"participants"`
	T         uint32 `json:"threshold"`
	Initiator int    `json:"initiator"`
	// Rogue: before the generation, an ordinary client sends this key-generation message to instance 0.
	Rogue string `json:"rogue,omitempty"` // "" | prepare | execute | commit | abort | contribute
	// RogueChain: the rogue client appends the public certificate of instance 2 (a peer) to the chain it presents
	RogueChain bool `json:"rogue_chain,omitempty"`
	// Conflict: after a successful generation two conflicting duties are routed over the participants.
	Conflict string `json:"conflict"` // double-vote | double-vote-target-root (the two votes differ in the target checkpoint root only) | a-surrounds-b | b-surrounds-a | two-blocks
	// Concurrent: every delivery of the routing is sent at the same moment instead of one after the other
	Concurrent bool    `json:"concurrent,omitempty"`
	Routing    [][]int `json:"routing"` // per participant: ordered duties (0 = A, 1 = B)
	Restart    int     `json:"restart"` // -1 or the participant restarted (SIGKILL) between generation and use
	// Lifecycle: the daemons run with a generation timeout of 2 s, and before anything else the harness, holding a
	// certificate of the authority in the name of instance 2, walks instance 1 through: prepare, prepare again
	// (refused), a wait past the timeout, abort (refused: nothing in progress), prepare (accepted), abort (accepted).
	Lifecycle bool `json:"lifecycle,omitempty"`
}

var dkgPropertyOf = map[string]string{
	"generation-inconsistent":       "C12",
	"generation-outside-bound":      "C12",
	"threshold-does-not-recover":    "C12",
	"account-not-usable":            "C12",
	"both-duties-reached-threshold": "C14",
	"rogue-dkg-message-accepted":    "C16",
	"generation-lifecycle-wrong":    "C17",
	"dkg-daemon-died":               "C20",
}

// endpoints prints a participant list in a canonical form.
func endpoints(es []*pb.Endpoint) string {
	var out []string
	for _, e := range es {
		out = append(out, fmt.Sprintf("%d=%s:%d", e.GetId(), e.GetName(), e.GetPort()))
	}
	sort.Strings(out)

	return strings.Join(out, ",")
}

type dkgOutcome struct {
	success, recovered bool
	signed             [2]int
	trace              []string
}

func runDKG(c *DKGCase, only string) (*dkgOutcome, *vkit.Violation, error) {
	o := &dkgOutcome{}
	var viol *vkit.Violation
	report := func(kind string, format string, args ...any) {
		if viol != nil {
			return
		}
		if _, ok := dkgPropertyOf[kind]; !ok {
			panic("violation kind without a property: " + kind)
		}
		if only != "" && only != "ALL" && dkgPropertyOf[kind] != only {
			return
		}
		viol = vkit.Violf(kind, format, args...)
	}
	perms := map[string]map[string][]string{"alice": {WD: {"All"}, WA: {"All"}}}
	ds := make([]*Daemon, c.Instances)
	defer func() {
		for _, d := range ds {
			if d != nil {
				d.Close()
			}
		}
	}()
	for try := 0; ; try++ {
		// the members' ports are fixed before they start (the peers table names them); if another test
		// process takes one in between, start over with new ports
		peers := map[string]string{}
		ports := make([]string, c.Instances)
		for i := 0; i < c.Instances; i++ {
			a, err := FreePortOn(InstanceName(i))
			if err != nil {
				return o, nil, err
			}
			ports[i] = a[strings.LastIndex(a, ":")+1:]
			peers[fmt.Sprint(i+1)] = InstanceName(i) + ":" + ports[i]
		}
		var startErr error
		for i := range ds {
			gt := ""
			if c.Lifecycle {
				gt = "2s"
			}
			d, err := NewDaemon(&Config{Permissions: perms, Cluster: true, Instance: i, Peers: peers, Port: ports[i], GenerationTimeout: gt})
			if err != nil {
				startErr = fmt.Errorf("instance %d: %w", i, err)

				break
			}
			ds[i] = d
		}
		if startErr == nil {
			break
		}
		for i, d := range ds {
			if d != nil {
				d.Close()
				ds[i] = nil
			}
		}
		if !errors.Is(startErr, ErrPortTaken) || try >= 4 {
			return o, nil, startErr
		}
	}
	alive := func(where string) bool {
		for i, d := range ds {
			if !d.Alive() {
				report("dkg-daemon-died", "%s: instance %d is gone: %s", where, i+1, d.Logs())

				return false
			}
		}

		return true
	}
	if c.Lifecycle {
		peer := Cred{CN: InstanceName(1), Issuer: "ca"} // a certificate of the authority in the name of peer 2
		lc := WD + "/lifecycle"
		eps := []*pb.Endpoint{{Id: 1, Name: InstanceName(0), Port: 1}, {Id: 2, Name: InstanceName(1), Port: 2}}
		prep := func() error {
			return ds[0].Invoke(peer, "/v1.DKG/Prepare", &pb.PrepareRequest{Account: lc, Threshold: 2, Participants: eps, Passphrase: []byte("x")}, &emptypb.Empty{})
		}
		abort := func() error {
			return ds[0].Invoke(peer, "/v1.DKG/Abort", &pb.AbortRequest{Account: lc}, &emptypb.Empty{})
		}
		step := func(what string, err error, wantOK bool) {
			o.trace = append(o.trace, fmt.Sprintf("lifecycle %s -> err=%v", what, err != nil))
			if (err == nil) != wantOK {
				report("generation-lifecycle-wrong", "instance 1, generation timeout 2 s, messages from peer 2: %s answered err=%v (%v), expected accepted=%v", what, err != nil, err, wantOK)
			}
		}
		step("prepare", prep(), true)
		step("second prepare while the first is active", prep(), false)
		time.Sleep(2600 * time.Millisecond)
		step("abort after the timeout", abort(), false)
		step("prepare after the timeout", prep(), true)
		step("abort of the active generation", abort(), true)
		step("abort again", abort(), false)
		if !alive("after the lifecycle messages") || viol != nil {
			return o, viol, nil
		}
	}
	name := "dkgacc"
	account := WD + "/" + name
	if c.Rogue != "" {
		var req, resp any
		eps := []*pb.Endpoint{{Id: 1, Name: InstanceName(0), Port: 1}, {Id: 2, Name: InstanceName(1), Port: 2}}
		switch c.Rogue {
		case "prepare":
			req, resp = &pb.PrepareRequest{Account: account, Threshold: 2, Participants: eps, Passphrase: []byte("x")}, &emptypb.Empty{}
		case "execute":
			req, resp = &pb.ExecuteRequest{Account: account}, &emptypb.Empty{}
		case "commit":
			req, resp = &pb.CommitRequest{Account: account, ConfirmationData: make([]byte, 32)}, &pb.CommitResponse{}
		case "abort":
			req, resp = &pb.AbortRequest{Account: account}, &emptypb.Empty{}
		default:
			req, resp = &pb.ContributeRequest{Account: account, Secret: make([]byte, 32), VerificationVector: [][]byte{make([]byte, 48)}}, &pb.ContributeResponse{}
		}
		method := "/v1.DKG/" + strings.ToUpper(c.Rogue[:1]) + c.Rogue[1:]
		rc := Cred{CN: "alice", Issuer: "ca"}
		if c.RogueChain {
			rc.Append = "instance:1"
		}
		if err := ds[0].Invoke(rc, method, req, resp); err == nil {
			report("rogue-dkg-message-accepted", "a %s message from client alice (not a peer) was answered without error by instance 1", c.Rogue)
		}
		o.trace = append(o.trace, "rogue "+c.Rogue)
		if !alive("after the rogue message") || viol != nil {
			return o, viol, nil
		}
	}
	gresp := &pb.GenerateResponse{}
	err := ds[c.Initiator%c.Instances].Invoke(Cred{CN: "alice", Issuer: "ca"}, "/v1.AccountManager/Generate",
		&pb.GenerateRequest{Account: account, Passphrase: []byte(vkit.DefaultPassphrase), Participants: c.N, SigningThreshold: c.T}, gresp)
	if err != nil {
		return o, nil, fmt.Errorf("generate: transport error: %v: %s", err, ds[c.Initiator%c.Instances].Logs())
	}
	o.success = gresp.GetState() == pb.ResponseState_SUCCEEDED
	o.trace = append(o.trace, fmt.Sprintf("generate n=%d t=%d -> %s", c.N, c.T, gresp.GetState()))
	if !alive("after the generation") {
		return o, viol, nil
	}
	inBound := c.T <= c.N && c.T > c.N/2
	if !o.success {
		return o, viol, nil
	}
	where := fmt.Sprintf("generation n=%d t=%d on %d daemons (initiator %d)", c.N, c.T, c.Instances, c.Initiator%c.Instances+1)
	if !inBound {
		report("generation-outside-bound", "%s reported success although n/2 < t <= n does not hold", where)
	}
	composite := gresp.GetPublicKey()
	if uint32(len(gresp.GetParticipants())) != c.N {
		report("generation-inconsistent", "%s returned %d participants", where, len(gresp.GetParticipants()))
	}
	type member struct {
		d     *Daemon
		id    uint64
		share []byte
	}
	var members []member
	for _, p := range gresp.GetParticipants() {
		if p.GetId() < 1 || int(p.GetId()) > c.Instances {
			report("generation-inconsistent", "%s lists participant %d which is not an instance", where, p.GetId())

			continue
		}
		members = append(members, member{d: ds[p.GetId()-1], id: p.GetId()})
	}
	if c.Restart >= 0 && len(members) > 0 {
		m := members[c.Restart%len(members)]
		m.d.Stop(true)
		if err := m.d.Start(); err != nil {
			if errors.Is(err, ErrPortTaken) {
				return o, nil, nil // another test process took the member's port meanwhile: this case ends here
			}

			return o, nil, err
		}
		o.trace = append(o.trace, fmt.Sprintf("restart %d", m.id))
	}
	// every participant lists the account with the same composite key, threshold and participants
	for i := range members {
		m := &members[i]
		lresp := &pb.ListAccountsResponse{}
		if err := m.d.Invoke(Cred{CN: "alice", Issuer: "ca"}, "/v1.Lister/ListAccounts", &pb.ListAccountsRequest{Paths: []string{WD}}, lresp); err != nil {
			return o, nil, fmt.Errorf("list on %d: %v", m.id, err)
		}
		var found *pb.DistributedAccount
		for _, a := range lresp.GetDistributedAccounts() {
			if a.GetName() == account {
				found = a
			}
		}
		if found == nil {
			report("account-not-usable", "%s: participant %d does not list %s", where, m.id, account)

			continue
		}
		if !bytes.Equal(found.GetCompositePublicKey(), composite) {
			report("generation-inconsistent", "%s: participant %d holds composite key %x, the client was given %x", where, m.id, found.GetCompositePublicKey(), composite)
		}
		if found.GetSigningThreshold() != c.T || uint32(len(found.GetParticipants())) != c.N {
			report("generation-inconsistent", "%s: participant %d holds threshold %d and %d participants", where, m.id, found.GetSigningThreshold(), len(found.GetParticipants()))
		}
		if got, want := endpoints(found.GetParticipants()), endpoints(gresp.GetParticipants()); got != want {
			report("generation-inconsistent", "%s: participant %d holds the participant list %s, the client was given %s", where, m.id, got, want)
		}
		m.share = found.GetPublicKey()
	}
	if viol != nil {
		return o, viol, nil
	}
	// any t participants recover a signature valid under the composite key; t-1 do not
	msg := root(77, 7)
	dom := domain("generic", "sign")
	var m32 [32]byte
	copy(m32[:], msg)
	sr := vkit.SigningRoot(m32, dom)
	partials := map[uint64][]byte{}
	var ids []uint64
	for _, m := range members {
		sresp := &pb.SignResponse{}
		if err := m.d.Invoke(Cred{CN: "alice", Issuer: "ca"}, "/v1.Signer/Sign", &pb.SignRequest{Id: &pb.SignRequest_Account{Account: account}, Data: msg, Domain: dom}, sresp); err != nil {
			return o, nil, fmt.Errorf("sign on %d: %v", m.id, err)
		}
		if sresp.GetState() != pb.ResponseState_SUCCEEDED {
			report("account-not-usable", "%s: participant %d answers a signing request for the new account with %s", where, m.id, sresp.GetState())

			continue
		}
		if err := vkit.VerifySig(m.share, sr, sresp.GetSignature()); err != nil {
			report("generation-inconsistent", "%s: participant %d's partial signature does not verify under the share key it lists: %v", where, m.id, err)
		}
		partials[m.id] = sresp.GetSignature()
		ids = append(ids, m.id)
	}
	if viol != nil {
		return o, viol, nil
	}
	sort.Slice(ids, func(i, j int) bool { return ids[i] < ids[j] })
	for _, sub := range vkit.Subsets(ids, int(c.T)) {
		ok, err := vkit.Recover(partials, sub, composite, sr[:])
		if err != nil {
			return o, nil, err
		}
		if !ok {
			report("threshold-does-not-recover", "%s: partial signatures of %v do not combine into a signature valid under the composite key", where, sub)
		}
		o.recovered = true
	}
	if c.T > 1 {
		for _, sub := range vkit.Subsets(ids, int(c.T)-1) {
			if ok, _ := vkit.Recover(partials, sub, composite, sr[:]); ok {
				report("threshold-does-not-recover", "%s: only %d partial signatures %v already give a signature valid under the composite key", where, len(sub), sub)
			}
		}
	}
	// two conflicting duties routed over the participants
	att := func(src, tgt uint64, salt uint64) *pb.SignBeaconAttestationRequest {
		return &pb.SignBeaconAttestationRequest{Id: &pb.SignBeaconAttestationRequest_Account{Account: account}, Domain: domain("attester", "attest"),
			Data: &pb.AttestationData{Slot: 1, BeaconBlockRoot: root(salt, 1), Source: &pb.Checkpoint{Epoch: src, Root: root(0, 2)}, Target: &pb.Checkpoint{Epoch: tgt, Root: root(0, 3)}}}
	}
	attTgtRoot := func(src, tgt uint64, salt uint64) *pb.SignBeaconAttestationRequest {
		r := att(src, tgt, 1)
		r.Data.Target.Root = root(salt, 3)

		return r
	}
	prop := func(salt uint64) *pb.SignBeaconProposalRequest {
		return &pb.SignBeaconProposalRequest{Id: &pb.SignBeaconProposalRequest_Account{Account: account}, Domain: domain("proposer", "propose"),
			Data: &pb.BeaconBlockHeader{Slot: 9, ProposerIndex: 1, ParentRoot: root(salt, 4), StateRoot: root(0, 5), BodyRoot: root(0, 6)}}
	}
	signedBy := [2]map[uint64]bool{{}, {}}
	var sbMu sync.Mutex
	var deliverErr error
	deliver := func(m member, dty int) {
		sresp := &pb.SignResponse{}
		var err error
		switch c.Conflict {
		case "double-vote":
			err = m.d.Invoke(Cred{CN: "alice", Issuer: "ca"}, "/v1.Signer/SignBeaconAttestation", att(10, 12, uint64(1+dty)), sresp)
		case "double-vote-target-root":
			err = m.d.Invoke(Cred{CN: "alice", Issuer: "ca"}, "/v1.Signer/SignBeaconAttestation", attTgtRoot(10, 12, uint64(1+dty)), sresp)
		case "a-surrounds-b":
			err = m.d.Invoke(Cred{CN: "alice", Issuer: "ca"}, "/v1.Signer/SignBeaconAttestation", [2]*pb.SignBeaconAttestationRequest{att(10, 15, 1), att(11, 14, 2)}[dty], sresp)
		case "b-surrounds-a":
			err = m.d.Invoke(Cred{CN: "alice", Issuer: "ca"}, "/v1.Signer/SignBeaconAttestation", [2]*pb.SignBeaconAttestationRequest{att(11, 14, 1), att(10, 15, 2)}[dty], sresp)
		default:
			err = m.d.Invoke(Cred{CN: "alice", Issuer: "ca"}, "/v1.Signer/SignBeaconProposal", prop(uint64(1+dty)), sresp)
		}
		sbMu.Lock()
		defer sbMu.Unlock()
		if err != nil {
			deliverErr = fmt.Errorf("duty on %d: %v", m.id, err)

			return
		}
		if sresp.GetState() == pb.ResponseState_SUCCEEDED && len(sresp.GetSignature()) > 0 {
			signedBy[dty][m.id] = true
		}
	}
	var dwg sync.WaitGroup
	for i, m := range members {
		if i >= len(c.Routing) {
			break
		}
		for _, dty := range c.Routing[i] {
			if c.Concurrent {
				dwg.Add(1)
				go func(m member, dty int) { defer dwg.Done(); deliver(m, dty) }(m, dty)
			} else {
				deliver(m, dty)
			}
		}
	}
	dwg.Wait()
	if deliverErr != nil {
		return o, nil, deliverErr
	}
	o.signed = [2]int{len(signedBy[0]), len(signedBy[1])}
	o.trace = append(o.trace, fmt.Sprintf("duties signed by %d and %d participants", o.signed[0], o.signed[1]))
	if o.signed[0] >= int(c.T) && o.signed[1] >= int(c.T) {
		report("both-duties-reached-threshold", "%s: conflicting duties (%s) collected %d and %d partial signatures with threshold %d (routing %v)", where, c.Conflict, o.signed[0], o.signed[1], c.T, c.Routing)
	}
	alive("after the duties")

	return o, viol, nil
}

// TestE2EDKG runs distributed key generation between real daemons (real sender, receiver, peers and certificates).
func TestE2EDKG(t *testing.T) {
	defer vkit.Flush()
	only := os.Getenv("VERIF_PROPERTY")
	for _, r := range vkit.ReplayFiles("TestE2EDKG") {
		var c DKGCase
		if err := json.Unmarshal(r.Case, &c); err != nil {
			t.Fatalf("bad replay case: %v", err)
		}
		// races, bursts and concurrent deliveries depend on timing: a replay gets five attempts
		for attempt := 0; attempt < 5; attempt++ {
			o, v, err := runDKG(&c, only)
			if err != nil {
				t.Fatalf("replay infrastructure error: %v", err)
			}
			t.Logf("replay: trace=%v", o.trace)
			vkit.Report(t, only, "TestE2EDKG", &c, v)
		}
	}
	if vkit.ReplayOnly() {
		return
	}
	rapid.Check(t, func(rt *rapid.T) {
		c := &DKGCase{Instances: rapid.IntRange(2, 4).Draw(rt, "instances"), Restart: -1}
		c.N = uint32(c.Instances)
		if rapid.Bool().Draw(rt, "fewer") {
			c.N = uint32(rapid.IntRange(2, c.Instances).Draw(rt, "n"))
		}
		if rapid.IntRange(0, 4).Draw(rt, "edge") == 0 {
			c.T = rapid.SampledFrom([]uint32{c.N / 2, c.N + 1, 1}).Draw(rt, "t_edge")
		} else {
			c.T = uint32(rapid.IntRange(int(c.N)/2+1, int(c.N)).Draw(rt, "t"))
		}
		c.Initiator = rapid.IntRange(0, c.Instances-1).Draw(rt, "initiator")
		if rapid.IntRange(0, 2).Draw(rt, "rogue") == 0 {
			c.Rogue = rapid.SampledFrom([]string{"prepare", "execute", "commit", "abort", "contribute"}).Draw(rt, "rogue_kind")
			c.RogueChain = rapid.Bool().Draw(rt, "rogue_chain")
		}
		c.Conflict = rapid.SampledFrom([]string{"double-vote", "double-vote-target-root", "double-vote-target-root", "a-surrounds-b", "b-surrounds-a", "two-blocks"}).Draw(rt, "conflict")
		c.Concurrent = rapid.Bool().Draw(rt, "concurrent")
		for i := 0; i < int(c.N); i++ {
			c.Routing = append(c.Routing, rapid.SampledFrom([][]int{{0, 1}, {1, 0}, {i % 2, 1 - i%2}, {i % 2}, {0, 1, 0}}).Draw(rt, "route"))
		}
		c.Lifecycle = rapid.IntRange(0, 3).Draw(rt, "lifecycle") == 0
		if rapid.IntRange(0, 2).Draw(rt, "restart") == 0 {
			c.Restart = rapid.IntRange(0, int(c.N)-1).Draw(rt, "restart_who")
		}
		stop := vkit.Watch(c, 240*time.Second)
		o, v, err := runDKG(c, only)
		stop()
		if err != nil {
			rt.Fatalf("INFRA: %v", err)
		}
		vkit.S.Eval()
		if o.success {
			vkit.S.Class("e2e:generation-between-daemons-succeeded")
			vkit.S.Class(fmt.Sprintf("e2e:generation-n%d-t%d", c.N, c.T))
			if c.Restart >= 0 {
				vkit.S.Class("e2e:participant-restarted-after-generation")
			}
			if c.Concurrent {
				vkit.S.Class("e2e:conflicting-duties-delivered-at-the-same-moment")
			}
			if o.signed[0] >= int(c.T) || o.signed[1] >= int(c.T) {
				vkit.S.Class("e2e:one-duty-reached-threshold-between-daemons")
			}
			vkit.S.Nontrivial(c)
		} else {
			vkit.S.Class("e2e:generation-between-daemons-refused")
		}
		if c.Rogue != "" {
			vkit.S.Class("e2e:rogue-dkg-message-from-a-client")
		}
		if c.Lifecycle {
			vkit.S.Class("e2e:generation-lifecycle-with-a-2s-timeout")
		}
		vkit.S.Sample(map[string]any{"case": c, "trace": o.trace}, o.success && c.N >= 3)
		vkit.Report(rt, only, "TestE2EDKG", c, v)
	})
}
