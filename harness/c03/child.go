// Package c03 decides C03: slashing protection survives a crash at any instant.
package c03

import (
	"bufio"
	"encoding/json"
	"fmt"
	"os"
	"runtime"
	"strconv"
	"sync"
	"sync/atomic"
	"syscall"

	"github.com/attestantio/dirk/services/fetcher"
	"github.com/attestantio/dirk/util/verifhook"

	"verif/harness/c01"
	"verif/harness/vkit"
)

// Cmd is one line of the child's stdin.
type Cmd struct {
	Op    string     `json:"op"` // step | wave | export | quit
	Step  *c01.Step  `json:"step,omitempty"`
	Index int        `json:"index"`           // index of the step (of the first step of a wave) in the submitted sequence
	Steps []c01.Step `json:"steps,omitempty"` // wave: single requests sent concurrently
}

// Released is the marker the child writes, with one write(2), the instant a signature has left the
// signer service.
type Released struct {
	Step int        `json:"step"`
	Pos  int        `json:"pos"`
	Key  int        `json:"key"`
	Att  *vkit.Att  `json:"att,omitempty"`
	Prop *vkit.Prop `json:"prop,omitempty"`
	// Wave > 0: the request ran concurrently with the other requests bearing the same number, so the
	// order of their RELEASED lines says nothing about the order in which Dirk processed them.
	Wave int `json:"wave,omitempty"`
}

func emit(tag string, v any) {
	b, _ := json.Marshal(v)
	line := append([]byte(tag+" "), b...)
	line = append(line, '\n')
	// one unbuffered write(2) per marker (atomic on a pipe below PIPE_BUF)
	if _, err := syscall.Write(1, line); err != nil {
		os.Exit(7)
	}
}

// ChildMain is the crash child: a signer stack on $VERIF_CHILD_DIR driven by stdin.
func ChildMain() {
	dir := os.Getenv("VERIF_CHILD_DIR")
	killAt, _ := strconv.ParseInt(os.Getenv("VERIF_KILL"), 10, 64)
	if os.Getenv("VERIF_KILL") == "" {
		killAt = -1
	}
	if p, err := strconv.Atoi(os.Getenv("VERIF_CHILD_PROCS")); err == nil && p > 0 {
		runtime.GOMAXPROCS(p)
	}
	w, err := c01.World()
	if err != nil {
		fmt.Fprintln(os.Stderr, "child: world:", err)
		os.Exit(8)
	}
	var events atomic.Int64
	var evMu sync.Mutex
	var evLog []string
	logEvents := os.Getenv("VERIF_CHILD_EVLOG") == "1"
	point := func(name string) {
		n := events.Add(1) - 1
		if logEvents {
			evMu.Lock()
			evLog = append(evLog, name)
			evMu.Unlock()
		}
		if n == killAt {
			_ = syscall.Kill(os.Getpid(), syscall.SIGKILL)
			select {}
		}
	}
	plan := vkit.NewFaultPlan()
	plan.OnSign = func(_ []byte, _ []byte) { point("sign.enter") }
	plan.AfterSign = func(_ []byte, _ []byte) { point("sign.exit") }
	verifhook.Set(func(ev verifhook.Event) error {
		point(ev.Name)

		return nil
	})
	st, err := vkit.NewStack(vkit.StackOpts{
		World: w, Dir: dir, Permissions: vkit.AllPermissions(c01.Client),
		WrapFetcher: func(f fetcher.Service) fetcher.Service { return &vkit.FaultFetcher{Service: f, Plan: plan} },
	})
	if err != nil {
		// A Dirk that cannot be restarted refuses everything (DESIGN 1.9).
		emit("STARTFAILED", map[string]string{"error": err.Error()})
		os.Exit(0)
	}
	emit("READY", map[string]int{})
	sc := bufio.NewScanner(os.Stdin)
	sc.Buffer(make([]byte, 1<<20), 1<<24)
	var outMu sync.Mutex
	doStep := func(s *c01.Step, stepNo int, wave int) {
		var states []string
		var rel []Released
		switch s.Kind {
		case "attest":
			e := s.Entries[0]
			r := st.Attest(c01.Client, "", vkit.TargetPadded(w.Accounts[e.Key], e.ByKey, e.Pad), s.ViaGRPC, &e.Att)
			states = []string{r.State}
			if r.Released() {
				a := e.Att
				rel = append(rel, Released{Step: stepNo, Pos: 0, Key: e.Key, Att: &a})
			}
		case "batch":
			ts := make([]vkit.Target, len(s.Entries))
			as := make([]*vkit.Att, len(s.Entries))
			for i := range s.Entries {
				ts[i] = vkit.TargetPadded(w.Accounts[s.Entries[i].Key], s.Entries[i].ByKey, s.Entries[i].Pad)
				as[i] = &s.Entries[i].Att
			}
			rs := st.AttestBatch(c01.Client, "", ts, s.ViaGRPC, as)
			for i, r := range rs {
				states = append(states, r.State)
				if r.Released() && i < len(s.Entries) {
					a := s.Entries[i].Att
					rel = append(rel, Released{Step: stepNo, Pos: i, Key: s.Entries[i].Key, Att: &a})
				}
			}
		case "propose":
			r := st.Propose(c01.Client, "", vkit.TargetPadded(w.Accounts[s.Key], s.ByKey, s.Pad), s.ViaGRPC, s.Prop)
			states = []string{r.State}
			if r.Released() {
				p := *s.Prop
				rel = append(rel, Released{Step: stepNo, Pos: 0, Key: s.Key, Prop: &p})
			}
		case "restart":
			if err := st.Restart(); err != nil {
				emit("STARTFAILED", map[string]string{"error": err.Error()})
				os.Exit(0)
			}
			states = []string{"restarted"}
		}
		point("return") // signatures exist in memory but have not left the process
		outMu.Lock()
		defer outMu.Unlock()
		for i := range rel {
			rel[i].Wave = wave
			emit("RELEASED", &rel[i])
			point("released")
		}
		emit("RESULT", map[string]any{"step": stepNo, "states": states})
	}
	for sc.Scan() {
		var cmd Cmd
		if err := json.Unmarshal(sc.Bytes(), &cmd); err != nil {
			fmt.Fprintln(os.Stderr, "child: bad command:", err)
			os.Exit(9)
		}
		switch cmd.Op {
		case "quit":
			emit("EVENTS", map[string]any{"n": events.Load(), "log": evLog})
			st.Close()
			os.Exit(0)
		case "export":
			exp, err := st.Export()
			if err != nil {
				emit("EXPORTFAILED", map[string]string{"error": err.Error()})
			} else {
				emit("EXPORT", exp)
			}
		case "step":
			doStep(cmd.Step, cmd.Index, 0)
		case "wave":
			var wg sync.WaitGroup
			for i := range cmd.Steps {
				wg.Add(1)
				go func(i int) {
					defer wg.Done()
					doStep(&cmd.Steps[i], cmd.Index+i, cmd.Index+1)
				}(i)
			}
			wg.Wait()
		}
	}
	// stdin closed without quit
	emit("EVENTS", map[string]any{"n": events.Load(), "log": evLog})
	st.Close()
	os.Exit(0)
}
