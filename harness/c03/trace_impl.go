package c03

import (
	"bufio"
	"fmt"
	"io"
	"os"
	"path/filepath"
	"regexp"
	"strconv"
	"strings"

	"verif/harness/vkit"
)

// Durability model over the syscall trace of one child lifetime (DESIGN section 2): bytes written
// through a descriptor opened with O_DSYNC/O_SYNC are durable when the write returns; other bytes
// become durable at the next fsync/fdatasync of that file; rename carries both lengths to the new
// name; ftruncate cuts both.

type fileState struct {
	size    int64
	durable int64
}

type fdState struct {
	path string
	sync bool
	off  int64
}

type traceEvent struct {
	kind   string // marker | other
	line   int
	text   string
	states map[string]fileState // snapshot at a marker
}

var (
	reLine    = regexp.MustCompile(`^(\d+)\s+(.*)$`)
	reResumed = regexp.MustCompile(`^<\.\.\. (\w+) resumed>(.*)$`)
	reFdPath  = regexp.MustCompile(`^(\d+)<([^>]*)>`)
	reRet     = regexp.MustCompile(`=\s+(-?\d+)(?:<[^>]*>)?(?:\s+\S.*)?$`)
)

type traceModel struct {
	store   string
	files   map[string]*fileState
	fds     map[string]*fdState // key pid-independent: fd number (threads share the table)
	markers []traceEvent
	pending map[string]string // pid -> unfinished call text
}

func (m *traceModel) file(p string) *fileState {
	f, ok := m.files[p]
	if !ok {
		f = &fileState{}
		m.files[p] = f
	}

	return f
}

func (m *traceModel) inStore(p string) bool {
	return strings.HasPrefix(p, m.store+"/")
}

func critical(p string) bool {
	b := filepath.Base(p)

	return strings.HasSuffix(b, ".vlog") || b == "MANIFEST"
}

func (m *traceModel) snapshot() map[string]fileState {
	s := map[string]fileState{}
	for p, f := range m.files {
		s[p] = *f
	}

	return s
}

// apply processes one completed call "name(args) = ret".
func (m *traceModel) apply(lineNo int, call string) {
	op := strings.IndexByte(call, '(')
	if op < 0 {
		return
	}
	name := call[:op]
	rest := call[op+1:]
	retm := reRet.FindStringSubmatch(rest)
	var ret int64 = -1
	if retm != nil {
		ret, _ = strconv.ParseInt(retm[1], 10, 64)
	}
	fdOf := func() (string, string, bool) {
		fm := reFdPath.FindStringSubmatch(rest)
		if fm == nil {
			return "", "", false
		}

		return fm[1], fm[2], true
	}
	switch name {
	case "openat", "open", "creat":
		if ret < 0 {
			return
		}
		// returned fd is annotated with its path: "= 8</path>"
		rm := regexp.MustCompile(`=\s+(\d+)<([^>]*)>\s*$`).FindStringSubmatch(rest)
		if rm == nil {
			return
		}
		fd, p := rm[1], rm[2]
		if !m.inStore(p) {
			delete(m.fds, fd)

			return
		}
		sync := strings.Contains(rest, "O_DSYNC") || strings.Contains(rest, "O_SYNC")
		st := &fdState{path: p, sync: sync}
		f := m.file(p)
		if strings.Contains(rest, "O_TRUNC") {
			f.size, f.durable = 0, 0
		}
		if strings.Contains(rest, "O_APPEND") {
			st.off = f.size
		}
		m.fds[fd] = st
	case "close":
		if fd, _, ok := fdOf(); ok {
			delete(m.fds, fd)
		}
	case "write", "pwrite64", "writev", "pwritev":
		fd, p, ok := fdOf()
		if !ok {
			return
		}
		if fd == "1" && strings.Contains(rest, `"RELEASED `) {
			m.markers = append(m.markers, traceEvent{kind: "marker", line: lineNo, text: call, states: m.snapshot()})

			return
		}
		st := m.fds[fd]
		if st == nil || ret <= 0 || !m.inStore(p) {
			return
		}
		f := m.file(st.path)
		off := st.off
		if name == "pwrite64" || name == "pwritev" {
			// explicit offset is the last argument before ") = "
			am := regexp.MustCompile(`,\s*(\d+)\)\s*=`).FindStringSubmatch(rest)
			if am != nil {
				off, _ = strconv.ParseInt(am[1], 10, 64)
			}
		} else {
			st.off += ret
		}
		end := off + ret
		if end > f.size {
			f.size = end
		}
		if st.sync && end > f.durable && off <= f.durable {
			f.durable = end
		}
	case "lseek":
		fd, _, ok := fdOf()
		if !ok || ret < 0 {
			return
		}
		if st := m.fds[fd]; st != nil {
			st.off = ret
		}
	case "fsync", "fdatasync":
		fd, _, ok := fdOf()
		if !ok || ret != 0 {
			return
		}
		if st := m.fds[fd]; st != nil {
			f := m.file(st.path)
			f.durable = f.size
		}
	case "ftruncate":
		fd, _, ok := fdOf()
		if !ok || ret != 0 {
			return
		}
		am := regexp.MustCompile(`>,\s*(\d+)\)`).FindStringSubmatch(rest)
		if st := m.fds[fd]; st != nil && am != nil {
			n, _ := strconv.ParseInt(am[1], 10, 64)
			f := m.file(st.path)
			if n >= f.size && f.durable == f.size {
				f.durable = n // extending a fully durable file with zeros loses nothing
			}
			f.size = n
			if f.durable > n {
				f.durable = n
			}
			if st.off > n {
				st.off = n
			}
		}
	case "rename", "renameat", "renameat2":
		if ret != 0 {
			return
		}
		qs := regexp.MustCompile(`"([^"]*)"`).FindAllStringSubmatch(rest, -1)
		if len(qs) < 2 {
			return
		}
		from, to := qs[0][1], qs[1][1]
		if f, ok := m.files[from]; ok {
			m.files[to] = f
			delete(m.files, from)
			for _, st := range m.fds {
				if st.path == from {
					st.path = to
				}
			}
		}
	case "unlink", "unlinkat":
		if ret != 0 {
			return
		}
		qs := regexp.MustCompile(`"([^"]*)"`).FindAllStringSubmatch(rest, -1)
		if len(qs) >= 1 {
			delete(m.files, qs[0][1])
		}
	}
}

func parseTrace(trace string, store string) (*traceModel, error) {
	f, err := os.Open(trace)
	if err != nil {
		return nil, err
	}
	defer f.Close()
	m := &traceModel{store: store, files: map[string]*fileState{}, fds: map[string]*fdState{}, pending: map[string]string{}}
	sc := bufio.NewScanner(f)
	sc.Buffer(make([]byte, 1<<20), 1<<24)
	n := 0
	for sc.Scan() {
		n++
		lm := reLine.FindStringSubmatch(sc.Text())
		if lm == nil {
			continue
		}
		pid, body := lm[1], lm[2]
		if strings.HasSuffix(body, "<unfinished ...>") {
			start := strings.TrimSuffix(body, "<unfinished ...>")
			m.pending[pid] = start
			// a RELEASED marker whose write is merely started already counts as released
			if strings.HasPrefix(start, "write(1<") && strings.Contains(start, `"RELEASED `) {
				m.markers = append(m.markers, traceEvent{kind: "marker", line: n, text: start, states: m.snapshot()})
				m.pending[pid] = "skip("
			}

			continue
		}
		if rm := reResumed.FindStringSubmatch(body); rm != nil {
			start := m.pending[pid]
			delete(m.pending, pid)
			if start == "" || start == "skip(" {
				continue
			}
			m.apply(n, start+rm[2])

			continue
		}
		if strings.HasPrefix(body, "+++") || strings.HasPrefix(body, "---") {
			continue
		}
		m.apply(n, body)
	}

	return m, sc.Err()
}

// checkTraceDurability evaluates the durability invariant at every RELEASED marker: every byte
// written to a value-log or MANIFEST file before the marker is on stable storage.
func checkTraceDurability(trace string, store string) (*vkit.Violation, int, error) {
	m, err := parseTrace(trace, store)
	if err != nil {
		return nil, 0, err
	}
	sawVlog := false
	for i, mk := range m.markers {
		for p, st := range mk.states {
			if !critical(p) {
				continue
			}
			if strings.HasSuffix(p, ".vlog") && st.size > 0 {
				sawVlog = true
			}
			if st.durable < st.size {
				return vkit.Violf("approval-not-durable-at-release", "release marker %d (trace line %d): %s has %d bytes written but only %d durable (no O_DSYNC/fsync before the signature left the process)", i, mk.line, filepath.Base(p), st.size, st.durable), len(m.markers), nil
			}
		}
	}
	if len(m.markers) > 0 && !sawVlog {
		return nil, len(m.markers), fmt.Errorf("trace model saw %d release markers but no value-log writes: the trace parser does not match this strace output", len(m.markers))
	}

	return nil, len(m.markers), nil
}

// buildPowerLossImage copies the store directory, truncating each file to its durable length at
// the end of the trace.  It reports whether the image differs from the directory.
func buildPowerLossImage(trace string, store string, img string) (bool, error) {
	m, err := parseTrace(trace, store)
	if err != nil {
		return false, err
	}
	if err := os.MkdirAll(img, 0o755); err != nil {
		return false, err
	}
	ents, err := os.ReadDir(store)
	if err != nil {
		return false, err
	}
	differs := false
	for _, e := range ents {
		if e.IsDir() || e.Name() == "LOCK" {
			continue
		}
		src := filepath.Join(store, e.Name())
		info, err := e.Info()
		if err != nil {
			return false, err
		}
		keep := info.Size()
		if st, ok := m.files[src]; ok && st.durable < keep {
			keep = st.durable
			differs = true
		}
		in, err := os.Open(src)
		if err != nil {
			return false, err
		}
		out, err := os.Create(filepath.Join(img, e.Name()))
		if err != nil {
			in.Close()

			return false, err
		}
		_, err = io.CopyN(out, in, keep)
		in.Close()
		out.Close()
		if err != nil && err != io.EOF {
			return false, err
		}
	}

	return differs, nil
}
