package c03

import (
	"encoding/json"
	"fmt"
	"github.com/attestantio/dirk/util/verifhook"
	"os"
	"sync"
	"testing"
	"time"

	"github.com/attestantio/dirk/services/fetcher"
	"pgregory.net/rapid"

	"verif/harness/c01"
	"verif/harness/vkit"
)

func TestMain(m *testing.M) {
	if os.Getenv("VERIF_CHILD") == "1" {
		ChildMain()

		return
	}
	os.Exit(m.Run())
}

var genOpts = c01.GenOpts{AllowHigh: true, AttestW: 45, BatchW: 30, ProposeW: 20, RestartW: 5, MinSteps: 1, MaxSteps: 8, ParP: 35}

func classify(c *CrashCase, o *CrashOutcome) bool {
	s := vkit.S
	nt := o.ReleasedBefore > 0 || (o.EventAtK != "" && o.EventAtK != "store.fetch.enter")
	if o.Killed1 {
		s.Class("killed-first-lifetime")
	} else {
		s.Class("no-crash-baseline")
	}
	if o.Killed2 {
		s.Class("double-crash")
	}
	if o.EventAtK != "" {
		s.Class("kill@" + o.EventAtK)
	}
	if o.RestartFailed {
		s.Class("restart-failed")
	}
	if o.ReleasedBefore > 0 && o.Killed1 {
		s.Class("kill-after-a-release")
	}
	if c.Mode == "parent" {
		s.Class("external-sigkill")
	}
	for i := range c.Steps {
		if i > 0 && c.Steps[i].Par && (c.Steps[i].Kind == "attest" || c.Steps[i].Kind == "propose") && (c.Steps[i-1].Kind == "attest" || c.Steps[i-1].Kind == "propose") {
			s.Class("history-with-concurrent-requests")

			break
		}
	}
	s.ClassN("probes-sent", o.ProbesSent)
	s.ClassN("released-before-crash", o.ReleasedBefore)
	s.ClassN("released-after-restart", o.ReleasedAfter)
	if c.Strace {
		s.Class("traced")
		s.ClassN("release-markers-checked-for-durability", o.PowerChecked)
		if o.ImageDiffers {
			s.Class("power-loss-image-differs-from-directory")
		}
	}

	return nt
}

func replay(t *testing.T, test string) {
	for _, r := range vkit.ReplayFiles(test) {
		var c CrashCase
		if err := json.Unmarshal(r.Case, &c); err != nil {
			t.Fatalf("bad replay case: %v", err)
		}
		_, evlog, _, err := Baseline(c.Steps, c.Procs)
		if err != nil {
			t.Fatalf("replay infrastructure error: %v", err)
		}
		_, v, err := RunCrash(&c, evlog)
		if err != nil {
			t.Fatalf("replay infrastructure error: %v", err)
		}
		vkit.Report(t, "C03", test, &c, v)
	}
}

// TestC03Kill is L2: rapid-generated histories, every crash point enumerated (or a drawn subset when
// there are more than maxPoints), self-kill at hook events and external SIGKILL at arbitrary instants.
func TestC03Kill(t *testing.T) {
	defer vkit.Flush()
	replay(t, "TestC03Kill")
	if vkit.ReplayOnly() {
		return
	}
	maxPoints := 24
	if vkit.Tier() == "thorough" {
		maxPoints = 48
	}
	rapid.Check(t, func(rt *rapid.T) {
		hist := c01.GenCase(rt, genOpts)
		procs := rapid.SampledFrom([]int{1, 4}).Draw(rt, "gomaxprocs")
		stop := vkit.Watch(hist, 600*time.Second)
		defer stop()
		events, evlog, lines, err := Baseline(hist.Steps, procs)
		if err != nil {
			rt.Fatalf("INFRA: %v", err)
		}
		// crash points: all of them, or a drawn subset
		var points []int64
		if int(events)+1 <= maxPoints {
			for k := int64(0); k <= events; k++ {
				points = append(points, k)
			}
			vkit.S.Class("history-with-all-crash-points-enumerated")
		} else {
			seen := map[int64]bool{}
			for len(points) < maxPoints {
				k := rapid.Int64Range(0, events).Draw(rt, "k")
				if !seen[k] {
					seen[k] = true
					points = append(points, k)
				}
			}
			vkit.S.Class("history-with-sampled-crash-points")
		}
		vkit.S.Class("histories")
		for _, k := range points {
			c := &CrashCase{Procs: procs, Steps: hist.Steps, Mode: "self", K: k, K2: -1}
			if rapid.IntRange(0, 3).Draw(rt, "nest") == 0 {
				c.K2 = rapid.Int64Range(0, 30).Draw(rt, "k2")
			}
			o, v, err := RunCrash(c, evlog)
			if err != nil {
				rt.Fatalf("INFRA: %v (case %+v)", err, c)
			}
			vkit.S.Eval()
			if classify(c, o) {
				vkit.S.Nontrivial(c)
			}
			vkit.S.Sample(map[string]any{"gomaxprocs": c.Procs, "k": c.K, "k2": c.K2, "event_at_k": o.EventAtK, "released_before": o.ReleasedBefore, "released_after": o.ReleasedAfter, "steps": c.Steps}, o.Killed1 && o.ReleasedBefore > 0 && o.ReleasedAfter > 0)
			vkit.Report(rt, "C03", "TestC03Kill", c, v)
		}
		// external SIGKILL after a drawn number of stdout lines
		for i := 0; i < 3 && lines > 1; i++ {
			c := &CrashCase{Procs: procs, Steps: hist.Steps, Mode: "parent", K: int64(rapid.IntRange(1, lines).Draw(rt, "kill_after_lines")), K2: -1}
			o, v, err := RunCrash(c, nil)
			if err != nil {
				rt.Fatalf("INFRA: %v (case %+v)", err, c)
			}
			vkit.S.Eval()
			if classify(c, o) {
				vkit.S.Nontrivial(c)
			}
			vkit.Report(rt, "C03", "TestC03Kill", c, v)
		}
	})
}

func init() {
	_ = fmt.Sprint
}

// TestC03Power is L3: the same crash cases with the first lifetime under strace; the durability
// invariant is evaluated at every release marker and the restart happens on the power-loss image.
func TestC03Power(t *testing.T) {
	defer vkit.Flush()
	replay(t, "TestC03Power")
	if vkit.ReplayOnly() {
		return
	}
	rapid.Check(t, func(rt *rapid.T) {
		hist := c01.GenCase(rt, genOpts)
		procs := rapid.SampledFrom([]int{1, 4}).Draw(rt, "gomaxprocs")
		stop := vkit.Watch(hist, 600*time.Second)
		defer stop()
		events, evlog, _, err := Baseline(hist.Steps, procs)
		if err != nil {
			rt.Fatalf("INFRA: %v", err)
		}
		n := 6
		for i := 0; i < n; i++ {
			k := rapid.Int64Range(0, events).Draw(rt, "k")
			if i == 0 {
				k = events // no crash: the whole history is traced
			}
			c := &CrashCase{Procs: procs, Steps: hist.Steps, Mode: "self", K: k, K2: -1, Strace: true}
			o, v, err := RunCrash(c, evlog)
			if err != nil {
				rt.Fatalf("INFRA: %v (case %+v)", err, c)
			}
			vkit.S.Eval()
			if classify(c, o) {
				vkit.S.Nontrivial(c)
			}
			vkit.S.Sample(map[string]any{"traced": true, "gomaxprocs": c.Procs, "k": c.K, "event_at_k": o.EventAtK, "released_before": o.ReleasedBefore, "markers_checked": o.PowerChecked, "steps": c.Steps}, o.PowerChecked > 1)
			vkit.Report(rt, "C03", "TestC03Power", c, v)
		}
	})
}

// TestC03Record is L1: at the moment AccountSigner.Sign is invoked for a request, the exported
// slashing-protection record of that key already dominates the request.
var concurrentWaves int

func TestC03Record(t *testing.T) {
	defer vkit.Flush()
	run := func(c *c01.Case) (int, *vkit.Violation, error) {
		w, err := c01.World()
		if err != nil {
			return 0, nil, err
		}
		type pending struct {
			key  int
			att  *vkit.Att
			prop *vkit.Prop
		}
		var mu sync.Mutex
		inflight := map[string]pending{}
		var viol *vkit.Violation
		checked := 0
		var st *vkit.Stack
		plan := vkit.NewFaultPlan()
		plan.OnSign = func(pub []byte, root []byte) {
			mu.Lock()
			p, ok := inflight[fmt.Sprintf("%x", root)]
			mu.Unlock()
			if !ok {
				mu.Lock()
				if viol == nil {
					viol = vkit.Violf("sign-of-unrequested-root", "Sign invoked over a root that no in-flight request has: %x", root)
				}
				mu.Unlock()

				return
			}
			exp, err := st.Export()
			if err != nil {
				return
			}
			e, present := exp[fmt.Sprintf("%x", pub)]
			bad := ""
			switch {
			case p.att != nil:
				if !present || e[2] < 0 || uint64(e[2]) < p.att.TgtEpoch || e[1] < 0 || uint64(e[1]) < p.att.SrcEpoch {
					bad = fmt.Sprintf("attestation (%d,%d) of key %d is being signed while the stored record is %v (present=%v)", p.att.SrcEpoch, p.att.TgtEpoch, p.key, e, present)
				}
			case p.prop != nil:
				if !present || e[0] < 0 || uint64(e[0]) < p.prop.Slot {
					bad = fmt.Sprintf("proposal at slot %d of key %d is being signed while the stored record is %v (present=%v)", p.prop.Slot, p.key, e, present)
				}
			}
			mu.Lock()
			checked++
			if bad != "" && viol == nil {
				viol = vkit.Violf("signed-before-recorded", "%s", bad)
			}
			mu.Unlock()
		}
		// Requests of one wave meet at the entry of their store write (the first waits up to 3 ms for a
		// second one), so that writes of different keys are in flight together as often as possible.
		var rvMu sync.Mutex
		var rvWaiting chan struct{}
		rvActive := false
		verifhook.Set(func(ev verifhook.Event) error {
			if ev.Name != "store.store.enter" {
				return nil
			}
			rvMu.Lock()
			if !rvActive {
				rvMu.Unlock()

				return nil
			}
			if rvWaiting != nil {
				close(rvWaiting)
				rvWaiting = nil
				rvMu.Unlock()

				return nil
			}
			ch := make(chan struct{})
			rvWaiting = ch
			rvMu.Unlock()
			select {
			case <-ch:
			case <-time.After(3 * time.Millisecond):
				rvMu.Lock()
				if rvWaiting == ch {
					rvWaiting = nil
				}
				rvMu.Unlock()
			}

			return nil
		})
		defer verifhook.Set(nil)
		st, err = vkit.NewStack(vkit.StackOpts{
			World: w, Permissions: vkit.AllPermissions(c01.Client),
			WrapFetcher: func(f fetcher.Service) fetcher.Service { return &vkit.FaultFetcher{Service: f, Plan: plan} },
		})
		if err != nil {
			return 0, nil, err
		}
		defer st.Close()
		single := func(s *c01.Step) bool { return s.Kind == "attest" || s.Kind == "propose" }
		for i := 0; i < len(c.Steps); {
			j := i + 1
			if single(&c.Steps[i]) {
				for j < len(c.Steps) && c.Steps[j].Par && single(&c.Steps[j]) {
					j++
				}
			}
			wave := c.Steps[i:j]
			mu.Lock()
			inflight = map[string]pending{}
			for k := range wave {
				s := &wave[k]
				switch s.Kind {
				case "attest", "batch":
					for j := range s.Entries {
						e := &s.Entries[j]
						r := vkit.SigningRoot(vkit.AttDataRoot(&e.Att), e.Att.Domain)
						inflight[fmt.Sprintf("%x", r[:])] = pending{key: e.Key, att: &e.Att}
					}
				case "propose":
					r := vkit.SigningRoot(vkit.PropDataRoot(s.Prop), s.Prop.Domain)
					inflight[fmt.Sprintf("%x", r[:])] = pending{key: s.Key, prop: s.Prop}
				}
			}
			mu.Unlock()
			rvMu.Lock()
			rvActive = len(wave) > 1
			rvMu.Unlock()
			var wg sync.WaitGroup
			var restartErr error
			for k := range wave {
				s := &wave[k]
				do := func() {
					switch s.Kind {
					case "restart":
						restartErr = st.Restart()
					case "attest":
						e := s.Entries[0]
						st.Attest(c01.Client, "", vkit.TargetPadded(w.Accounts[e.Key], e.ByKey, e.Pad), s.ViaGRPC, &e.Att)
					case "batch":
						ts := make([]vkit.Target, len(s.Entries))
						as := make([]*vkit.Att, len(s.Entries))
						for j := range s.Entries {
							ts[j] = vkit.TargetPadded(w.Accounts[s.Entries[j].Key], s.Entries[j].ByKey, s.Entries[j].Pad)
							as[j] = &s.Entries[j].Att
						}
						st.AttestBatch(c01.Client, "", ts, s.ViaGRPC, as)
					case "propose":
						st.Propose(c01.Client, "", vkit.TargetPadded(w.Accounts[s.Key], s.ByKey, s.Pad), s.ViaGRPC, s.Prop)
					}
				}
				if len(wave) == 1 {
					do()
				} else {
					concurrentWaves++
					wg.Add(1)
					go func() { defer wg.Done(); do() }()
				}
			}
			wg.Wait()
			if restartErr != nil {
				return checked, nil, restartErr
			}
			i = j
			mu.Lock()
			v := viol
			mu.Unlock()
			if v != nil {
				return checked, v, nil
			}
		}

		return checked, nil, nil
	}
	for _, r := range vkit.ReplayFiles("TestC03Record") {
		var c c01.Case
		if err := json.Unmarshal(r.Case, &c); err != nil {
			t.Fatalf("bad replay case: %v", err)
		}
		_, v, err := run(&c)
		if err != nil {
			t.Fatalf("replay infrastructure error: %v", err)
		}
		vkit.Report(t, "C03", "TestC03Record", &c, v)
	}
	if vkit.ReplayOnly() {
		return
	}
	opts := c01.GenOpts{AllowHigh: true, AttestW: 40, BatchW: 30, ProposeW: 22, RestartW: 8, MinSteps: 1, MaxSteps: 30, ParP: 40}
	rapid.Check(t, func(rt *rapid.T) {
		c := c01.GenCase(rt, opts)
		stop := vkit.Watch(c, 120*time.Second)
		n, v, err := run(c)
		stop()
		if err != nil {
			rt.Fatalf("INFRA: %v", err)
		}
		vkit.S.Eval()
		vkit.S.ClassN("record-checked-at-sign-invocation", n)
		vkit.S.ClassN("l1-requests-sent-concurrently", concurrentWaves)
		concurrentWaves = 0
		if n > 0 {
			vkit.S.Nontrivial(map[string]any{"l1": c})
		}
		vkit.Report(rt, "C03", "TestC03Record", c, v)
	})
}
