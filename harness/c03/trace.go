package c03

import "verif/harness/vkit"

// CheckTraceDurability is filled in by trace_impl.go.
func CheckTraceDurability(trace string, store string) (*vkit.Violation, int, error) {
	return checkTraceDurability(trace, store)
}

// BuildPowerLossImage is filled in by trace_impl.go.
func BuildPowerLossImage(trace string, store string, img string) (bool, error) {
	return buildPowerLossImage(trace, store, img)
}
