package c03

import (
	"bufio"
	"bytes"
	"encoding/json"
	"errors"
	"fmt"
	"io"
	"os"
	"os/exec"
	"sort"
	"strings"
	"syscall"
	"time"

	"verif/harness/c01"
	"verif/harness/vkit"
)

// ChildRun is what the parent saw of one child lifetime.
type ChildRun struct {
	Ready       bool
	StartFailed string
	Released    []Released
	Results     [][]string
	DoneSteps   map[int]bool // indices of steps whose RESULT line arrived
	Exports     []map[string][3]int64
	ExportErrs  []string
	Events      int64
	EvLog       []string
	Killed      bool // died from a signal
	Lines       int
	Stderr      string
	// ReleasedAtLine[i] is the index (among all stdout lines) of the i-th RELEASED line.
	Tags []string
}

// ChildOpts configures one child lifetime.
type ChildOpts struct {
	Dir        string
	Procs      int
	KillAt     int64  // self-kill at the n-th hook event; -1 = never
	KillAfter  int    // parent sends SIGKILL after reading this many stdout lines; 0 = never
	StraceOut  string // if set, run under strace writing to this file
	EventLog   bool
	SelfBinary string
}

func selfBinary() string {
	if b := os.Getenv("VERIF_BIN"); b != "" {
		if _, err := os.Stat(b); err == nil {
			return b
		}
	}
	exe, err := os.Executable()
	if err != nil {
		return os.Args[0]
	}

	return exe
}

// RunChild runs one child lifetime, feeding it the commands and reading its markers.
func RunChild(o ChildOpts, cmds []Cmd) (*ChildRun, error) {
	bin := selfBinary()
	var cmd *exec.Cmd
	if o.StraceOut != "" {
		cmd = exec.Command("strace", "-f", "-y", "-s", "64", "-o", o.StraceOut,
			"-e", "trace=openat,open,creat,lseek,write,pwrite64,pwritev,writev,fsync,fdatasync,sync_file_range,ftruncate,truncate,rename,renameat,renameat2,unlink,unlinkat,close,msync,mmap",
			bin, "-test.run", "^$")
	} else {
		cmd = exec.Command(bin, "-test.run", "^$")
	}
	cmd.Env = append(os.Environ(), "VERIF_CHILD=1", "VERIF_CHILD_DIR="+o.Dir, fmt.Sprintf("VERIF_CHILD_PROCS=%d", o.Procs))
	if o.KillAt >= 0 {
		cmd.Env = append(cmd.Env, fmt.Sprintf("VERIF_KILL=%d", o.KillAt))
	} else {
		cmd.Env = append(cmd.Env, "VERIF_KILL=")
	}
	if o.EventLog {
		cmd.Env = append(cmd.Env, "VERIF_CHILD_EVLOG=1")
	}
	var in bytes.Buffer
	for i := range cmds {
		b, _ := json.Marshal(&cmds[i])
		in.Write(b)
		in.WriteByte('\n')
	}
	cmd.Stdin = &in
	stdout, err := cmd.StdoutPipe()
	if err != nil {
		return nil, err
	}
	var stderr bytes.Buffer
	cmd.Stderr = &stderr
	if err := cmd.Start(); err != nil {
		return nil, err
	}
	run := &ChildRun{}
	timer := time.AfterFunc(120*time.Second, func() { _ = cmd.Process.Kill() })
	defer timer.Stop()
	rd := bufio.NewReaderSize(stdout, 1<<20)
	for {
		line, err := rd.ReadBytes('\n')
		if err != nil {
			if !errors.Is(err, io.EOF) {
				_ = cmd.Process.Kill()
			}

			break // an incomplete last line is a marker that never left the process
		}
		run.Lines++
		sp := bytes.IndexByte(line, ' ')
		if sp < 0 {
			continue
		}
		tag, body := string(line[:sp]), line[sp+1:]
		run.Tags = append(run.Tags, tag)
		switch tag {
		case "READY":
			run.Ready = true
		case "STARTFAILED":
			var m map[string]string
			_ = json.Unmarshal(body, &m)
			run.StartFailed = m["error"]
			if run.StartFailed == "" {
				run.StartFailed = "unknown"
			}
		case "RELEASED":
			var r Released
			if err := json.Unmarshal(body, &r); err != nil {
				return nil, fmt.Errorf("bad RELEASED line: %w", err)
			}
			run.Released = append(run.Released, r)
		case "RESULT":
			var m struct {
				Step   int      `json:"step"`
				States []string `json:"states"`
			}
			_ = json.Unmarshal(body, &m)
			run.Results = append(run.Results, m.States)
			if run.DoneSteps == nil {
				run.DoneSteps = map[int]bool{}
			}
			run.DoneSteps[m.Step] = true
		case "EXPORT":
			var m map[string][3]int64
			_ = json.Unmarshal(body, &m)
			run.Exports = append(run.Exports, m)
		case "EXPORTFAILED":
			run.ExportErrs = append(run.ExportErrs, string(body))
		case "EVENTS":
			var m struct {
				N   int64    `json:"n"`
				Log []string `json:"log"`
			}
			_ = json.Unmarshal(body, &m)
			run.Events, run.EvLog = m.N, m.Log
		}
		if o.KillAfter > 0 && run.Lines >= o.KillAfter {
			if o.StraceOut != "" {
				// kill the traced process group: strace and its tracee
				_ = exec.Command("pkill", "-KILL", "-P", fmt.Sprint(cmd.Process.Pid)).Run()
			}
			_ = cmd.Process.Signal(syscall.SIGKILL)
			run.Killed = true

			break
		}
	}
	_, _ = io.Copy(io.Discard, rd)
	werr := cmd.Wait()
	run.Stderr = stderr.String()
	if werr != nil {
		var ee *exec.ExitError
		if errors.As(werr, &ee) {
			if ws, ok := ee.Sys().(syscall.WaitStatus); ok && ws.Signaled() {
				run.Killed = true
			} else if o.StraceOut != "" && strings.Contains(run.Stderr, "killed by SIGKILL") {
				run.Killed = true
			} else if !run.Killed {
				return run, fmt.Errorf("child exited with %v: %s", werr, tail(run.Stderr, 2000))
			}
		} else {
			return run, werr
		}
	}
	if strings.Contains(run.Stderr, "panic:") || strings.Contains(run.Stderr, "fatal error:") {
		return run, fmt.Errorf("child crashed: %s", tail(run.Stderr, 3000))
	}

	return run, nil
}

func tail(s string, n int) string {
	if len(s) <= n {
		return s
	}

	return s[len(s)-n:]
}

// ---------------------------------------------------------------------------------------------

// stepCmds turns steps into child commands; consecutive single requests marked Par travel as one
// "wave" and are sent concurrently.
func stepCmds(steps []c01.Step) []Cmd {
	out := make([]Cmd, 0, len(steps)+1)
	single := func(s *c01.Step) bool { return s.Kind == "attest" || s.Kind == "propose" }
	for i := 0; i < len(steps); {
		j := i + 1
		if single(&steps[i]) {
			for j < len(steps) && steps[j].Par && single(&steps[j]) {
				j++
			}
		}
		if j-i > 1 {
			out = append(out, Cmd{Op: "wave", Index: i, Steps: steps[i:j]})
		} else {
			out = append(out, Cmd{Op: "step", Index: i, Step: &steps[i]})
		}
		i = j
	}

	return out
}

func keyHex(w *vkit.World, k int) string { return fmt.Sprintf("%x", w.Accounts[k].PubKey) }

func otherRoot(r []byte) []byte {
	o := make([]byte, 32)
	copy(o, r)
	o[7] ^= 0x5c

	return o
}

// Probes builds, for one released signature, fresh requests that conflict with it.
func Probes(r *Released) []c01.Step {
	var out []c01.Step
	if r.Att != nil {
		a := *r.Att
		dv := a
		dv.BlockRoot = otherRoot(a.BlockRoot)
		out = append(out, c01.Step{Kind: "attest", Entries: []c01.Entry{{Key: r.Key, Att: dv}}})
		if a.SrcEpoch > 0 && a.TgtEpoch < 1<<63-1 {
			sur := a
			sur.SrcEpoch, sur.TgtEpoch = a.SrcEpoch-1, a.TgtEpoch+1
			sur.TgtRoot = otherRoot(a.TgtRoot)
			out = append(out, c01.Step{Kind: "attest", ViaGRPC: true, Entries: []c01.Entry{{Key: r.Key, ByKey: true, Att: sur}}})
		}
		if a.TgtEpoch >= 3 && a.SrcEpoch+1 < a.TgtEpoch-1 {
			in := a
			in.SrcEpoch, in.TgtEpoch = a.SrcEpoch+1, a.TgtEpoch-1
			in.TgtRoot = otherRoot(a.TgtRoot)
			// as a batch position, next to an unrelated entry of another key
			other := (r.Key + 1) % c01.NKeys
			ben := a
			ben.BlockRoot = otherRoot(a.BlockRoot)
			out = append(out, c01.Step{Kind: "batch", Entries: []c01.Entry{{Key: other, Att: ben}, {Key: r.Key, Att: in}}})
		}
	}
	if r.Prop != nil {
		p := *r.Prop
		p.BodyRoot = otherRoot(p.BodyRoot)
		out = append(out, c01.Step{Kind: "propose", Key: r.Key, Prop: &p})
		if p.Slot > 0 {
			q := *r.Prop
			q.Slot--
			q.StateRoot = otherRoot(q.StateRoot)
			out = append(out, c01.Step{Kind: "propose", Key: r.Key, ByKey: true, ViaGRPC: true, Prop: &q})
		}
	}

	return out
}

// feed adds the releases of a run to the history oracle and reports the first slashable release.
func feed(w *vkit.World, h *vkit.History, run *ChildRun, phase string) *vkit.Violation {
	// Requests of one wave ran concurrently: the order of their RELEASED lines is not the order in
	// which Dirk processed them.  Slashability between attestations is symmetric, but "proposal slots
	// strictly increase" depends on the order, so the proposals of a wave are taken in the order most
	// favourable to Dirk (ascending slot); two proposals at one slot still collide.
	rel := append([]Released(nil), run.Released...)
	for i := 0; i < len(rel); {
		j := i + 1
		for rel[i].Wave > 0 && j < len(rel) && rel[j].Wave == rel[i].Wave {
			j++
		}
		if j-i > 1 {
			var at []int
			var props []Released
			for k := i; k < j; k++ {
				if rel[k].Prop != nil {
					at = append(at, k)
					props = append(props, rel[k])
				}
			}
			sort.SliceStable(props, func(a, b int) bool { return props[a].Prop.Slot < props[b].Prop.Slot })
			for n, k := range at {
				rel[k] = props[n]
			}
		}
		i = j
	}
	for i := range rel {
		r := &rel[i]
		key := keyHex(w, r.Key)
		if r.Att != nil {
			if why, bad := h.AddAtt(key, r.Att); bad {
				return vkit.Violf("slashable-after-crash.attestation", "%s: released attestation (%d,%d) for key %d: %s", phase, r.Att.SrcEpoch, r.Att.TgtEpoch, r.Key, why)
			}
		}
		if r.Prop != nil {
			if why, bad := h.AddProp(key, r.Prop); bad {
				return vkit.Violf("slashable-after-crash.proposal", "%s: released proposal at slot %d for key %d: %s", phase, r.Prop.Slot, r.Key, why)
			}
		}
	}

	return nil
}

// dominates checks that an export taken after restart covers every released signature.
func dominates(w *vkit.World, h *vkit.History, exp map[string][3]int64, phase string) *vkit.Violation {
	for k := range w.Accounts {
		key := keyHex(w, k)
		e, ok := exp[key]
		if mt, has := h.MaxTarget(key); has {
			if !ok || e[2] < 0 || uint64(e[2]) < mt {
				return vkit.Violf("record-lost-after-crash.attestation", "%s: key %d released target %d before the crash, after restart the store shows %v (present=%v)", phase, k, mt, e, ok)
			}
			ms, _ := h.MaxSource(key)
			if e[1] < 0 || uint64(e[1]) < minSrcNeeded(h, key, ms) {
				return vkit.Violf("record-lost-after-crash.attestation-source", "%s: key %d released source up to %d, store shows %v", phase, k, ms, e)
			}
		}
		if ms, has := h.MaxSlot(key); has {
			if !ok || e[0] < 0 || uint64(e[0]) < ms {
				return vkit.Violf("record-lost-after-crash.proposal", "%s: key %d released slot %d before the crash, after restart the store shows %v (present=%v)", phase, k, ms, e, ok)
			}
		}
	}

	return nil
}

// minSrcNeeded: the stored source must be at least the source of the latest-target release (the
// watermark rule stores the source of the last approved attestation, which is the highest).
func minSrcNeeded(_ *vkit.History, _ string, maxSrc uint64) uint64 { return maxSrc }

// CrashCase is one (history, crash plan).
type CrashCase struct {
	Procs  int        `json:"gomaxprocs"`
	Steps  []c01.Step `json:"steps"`
	Mode   string     `json:"mode"`             // self | parent
	K      int64      `json:"k"`                // crash point of the first lifetime (event number / stdout line)
	K2     int64      `json:"k2"`               // crash point of the second lifetime, -1 = none
	Strace bool       `json:"strace,omitempty"` // L3
}

// CrashOutcome describes one executed crash case.
type CrashOutcome struct {
	Killed1        bool
	Killed2        bool
	ReleasedBefore int
	ReleasedAfter  int
	RestartFailed  bool
	EventAtK       string
	ProbesSent     int
	ImageDiffers   bool
	PowerChecked   int
}

// RunCrash executes one crash case in a fresh directory.
func RunCrash(c *CrashCase, evlog []string) (*CrashOutcome, *vkit.Violation, error) {
	w, err := c01.World()
	if err != nil {
		return nil, nil, err
	}
	dir, err := os.MkdirTemp("", "verif-c03-")
	if err != nil {
		return nil, nil, err
	}
	defer os.RemoveAll(dir)
	store := dir + "/store"
	if err := os.Mkdir(store, 0o755); err != nil {
		return nil, nil, err
	}
	o := &CrashOutcome{}
	if c.Mode == "self" && c.K >= 0 && int(c.K) < len(evlog) {
		o.EventAtK = evlog[c.K]
	}
	h := vkit.NewHistory()

	opts := ChildOpts{Dir: store, Procs: c.Procs, KillAt: -1}
	if c.Mode == "self" {
		opts.KillAt = c.K
	} else {
		opts.KillAfter = int(c.K)
	}
	if c.Strace {
		opts.StraceOut = dir + "/trace1"
	}
	cmds := append(stepCmds(c.Steps), Cmd{Op: "quit"})
	run1, err := RunChild(opts, cmds)
	if err != nil {
		return o, nil, fmt.Errorf("first lifetime: %w", err)
	}
	if run1.StartFailed != "" {
		return o, nil, fmt.Errorf("first lifetime did not start: %s", run1.StartFailed)
	}
	o.Killed1 = run1.Killed
	o.ReleasedBefore = len(run1.Released)
	if v := feed(w, h, run1, "before the crash"); v != nil {
		return o, v, nil
	}
	if c.Strace {
		pv, n, perr := CheckTraceDurability(opts.StraceOut, store)
		if perr != nil {
			return o, nil, perr
		}
		o.PowerChecked += n
		if pv != nil {
			return o, pv, nil
		}
		// restart on the power-loss image instead of the surviving directory
		img := dir + "/image"
		differs, ierr := BuildPowerLossImage(opts.StraceOut, store, img)
		if ierr != nil {
			return o, nil, ierr
		}
		o.ImageDiffers = differs
		store = img
	}

	// second lifetime: export, conflicting probes for everything released, then the rest of the history
	var rest []c01.Step
	for i := range c.Steps {
		if !run1.DoneSteps[i] {
			rest = append(rest, c.Steps[i])
		}
	}
	var cmds2 []Cmd
	cmds2 = append(cmds2, Cmd{Op: "export"})
	for i := range run1.Released {
		ps := Probes(&run1.Released[i])
		o.ProbesSent += len(ps)
		cmds2 = append(cmds2, stepCmds(ps)...)
	}
	cmds2 = append(cmds2, stepCmds(rest)...)
	cmds2 = append(cmds2, Cmd{Op: "export"}, Cmd{Op: "quit"})
	opts2 := ChildOpts{Dir: store, Procs: c.Procs, KillAt: -1}
	if c.K2 >= 0 {
		if c.Mode == "self" {
			opts2.KillAt = c.K2
		} else {
			opts2.KillAfter = int(c.K2) + 2
		}
	}
	run2, err := RunChild(opts2, cmds2)
	if err != nil {
		return o, nil, fmt.Errorf("second lifetime: %w", err)
	}
	if run2.StartFailed != "" {
		// cannot be restarted: refuses everything; recorded, not a violation of C03
		o.RestartFailed = true

		return o, nil, nil
	}
	o.Killed2 = run2.Killed
	if len(run2.Exports) > 0 {
		if v := dominates(w, h, run2.Exports[0], "after the first restart"); v != nil {
			return o, v, nil
		}
	} else if !run2.Killed {
		return o, nil, fmt.Errorf("second lifetime produced no export: %v %s", run2.ExportErrs, tail(run2.Stderr, 500))
	}
	o.ReleasedAfter = len(run2.Released)
	if v := feed(w, h, run2, "after the first restart"); v != nil {
		return o, v, nil
	}
	if !run2.Killed {
		return o, nil, nil
	}

	// third lifetime after a second crash: export and probes for everything released so far
	var cmds3 []Cmd
	cmds3 = append(cmds3, Cmd{Op: "export"})
	for i := range run1.Released {
		cmds3 = append(cmds3, stepCmds(Probes(&run1.Released[i]))...)
	}
	for i := range run2.Released {
		cmds3 = append(cmds3, stepCmds(Probes(&run2.Released[i]))...)
	}
	cmds3 = append(cmds3, Cmd{Op: "quit"})
	run3, err := RunChild(ChildOpts{Dir: store, Procs: c.Procs, KillAt: -1}, cmds3)
	if err != nil {
		return o, nil, fmt.Errorf("third lifetime: %w", err)
	}
	if run3.StartFailed != "" {
		o.RestartFailed = true

		return o, nil, nil
	}
	if len(run3.Exports) > 0 {
		if v := dominates(w, h, run3.Exports[0], "after the second restart"); v != nil {
			return o, v, nil
		}
	}
	o.ReleasedAfter += len(run3.Released)
	if v := feed(w, h, run3, "after the second restart"); v != nil {
		return o, v, nil
	}

	return o, nil, nil
}

// Baseline runs the history without a crash and returns the number of hook events and their names.
func Baseline(steps []c01.Step, procs int) (int64, []string, int, error) {
	dir, err := os.MkdirTemp("", "verif-c03-base-")
	if err != nil {
		return 0, nil, 0, err
	}
	defer os.RemoveAll(dir)
	run, err := RunChild(ChildOpts{Dir: dir, Procs: procs, KillAt: -1, EventLog: true}, append(stepCmds(steps), Cmd{Op: "quit"}))
	if err != nil {
		return 0, nil, 0, err
	}
	if run.StartFailed != "" {
		return 0, nil, 0, fmt.Errorf("baseline did not start: %s", run.StartFailed)
	}

	return run.Events, run.EvLog, run.Lines, nil
}
