// Package c04 decides C04: concurrent requests on overlapping keys behave as if processed one at a
// time in some order compatible with their real-time order.
package c04

import (
	"context"
	"encoding/binary"
	"encoding/json"
	"fmt"
	"reflect"
	"runtime"
	"sync"
	"sync/atomic"
	"testing"
	"time"

	"github.com/attestantio/dirk/rules"
	memfetcher "github.com/attestantio/dirk/services/fetcher/mem"
	"github.com/attestantio/dirk/services/ruler"
	"github.com/attestantio/dirk/util/verifhook"
	"pgregory.net/rapid"

	"verif/harness/vkit"
)

const (
	nKeys  = 3
	client = "client1"
)

var (
	once    sync.Once
	world   *vkit.World
	fetcher *memfetcher.Service
	initErr error
)

func setup() error {
	once.Do(func() {
		world, initErr = vkit.SimpleWorld(nKeys)
		if initErr == nil {
			fetcher, initErr = vkit.NewFetcher(world)
		}
	})

	return initErr
}

// Item is one duty inside a request: offsets are relative to the round's base epoch.
type Item struct {
	Key  int   `json:"key"`
	DSrc int64 `json:"dsrc"`
	DTgt int64 `json:"dtgt"`
	Root int   `json:"root"`
}

// Req is one concurrent request.
type Req struct {
	Kind    string `json:"kind"` // attest | attests | propose
	Items   []Item `json:"items"`
	DelayUS int    `json:"delay_us"`
	ViaGRPC bool   `json:"via_grpc,omitempty"`
}

// Park is one steering directive: the first arrival at the hook point for the key sleeps.
type Park struct {
	Point string `json:"point"` // store.fetch.exit | store.store.enter | store.batch.enter | store.fetch.enter
	Key   int    `json:"key"`
	MS    int    `json:"ms"`
	// Cancel = r+1 > 0: at the moment the park is hit, the context of request r of the round is
	// cancelled (its client has gone away).  Whatever that request is answered, the round must still
	// be explainable with that request either processed at some point or not at all.
	Cancel int `json:"cancel,omitempty"`
}

// Round is a set of concurrent requests.
type Round struct {
	Reqs  []Req  `json:"reqs"`
	Parks []Park `json:"parks,omitempty"`
}

// Case is a sequence of rounds.
type Case struct {
	Procs  int     `json:"gomaxprocs"`
	Rounds []Round `json:"rounds"`
}

func genItem(t *rapid.T, key int) Item {
	return Item{Key: key, DSrc: int64(rapid.IntRange(-1, 1).Draw(t, "dsrc")), DTgt: int64(rapid.IntRange(0, 2).Draw(t, "dtgt")), Root: rapid.IntRange(0, 1).Draw(t, "root")}
}

func genRound(t *rapid.T) Round {
	var r Round
	n := rapid.IntRange(2, 6).Draw(t, "nreq")
	for i := 0; i < n; i++ {
		kind := rapid.SampledFrom([]string{"attest", "attest", "attests", "attests", "propose"}).Draw(t, "kind")
		q := Req{Kind: kind, DelayUS: rapid.SampledFrom([]int{0, 0, 0, 50, 300, 1500, 12000}).Draw(t, "delay"), ViaGRPC: rapid.IntRange(0, 4).Draw(t, "grpc") == 0}
		switch kind {
		case "attests":
			perm := rapid.Permutation([]int{0, 1, 2}).Draw(t, "perm")
			m := rapid.IntRange(2, 3).Draw(t, "nk")
			for _, k := range perm[:m] {
				q.Items = append(q.Items, genItem(t, k))
			}
		default:
			q.Items = []Item{genItem(t, rapid.IntRange(0, nKeys-1).Draw(t, "key"))}
		}
		r.Reqs = append(r.Reqs, q)
	}
	np := rapid.IntRange(0, 2).Draw(t, "nparks")
	for i := 0; i < np; i++ {
		r.Parks = append(r.Parks, Park{
			Point: rapid.SampledFrom([]string{"store.fetch.exit", "store.fetch.exit", "store.store.enter", "store.batch.enter", "store.fetch.enter"}).Draw(t, "point"),
			Key:   rapid.IntRange(0, nKeys-1).Draw(t, "pkey"),
			MS:    rapid.SampledFrom([]int{1, 3, 8}).Draw(t, "ms"),
		})
		if rapid.IntRange(0, 3).Draw(t, "cancel") == 0 {
			r.Parks[len(r.Parks)-1].Cancel = 1 + rapid.IntRange(0, len(r.Reqs)-1).Draw(t, "cancel_req")
		}
	}

	return r
}

func rootOf(v int, s byte) []byte {
	r := make([]byte, 32)
	binary.LittleEndian.PutUint64(r, uint64(v)+1)
	r[31] = s

	return r
}

func (it *Item) att(base uint64) *vkit.Att {
	return &vkit.Att{Slot: 1, BlockRoot: rootOf(it.Root, 1), SrcEpoch: uint64(int64(base) + it.DSrc), SrcRoot: rootOf(0, 2), TgtEpoch: uint64(int64(base) + 1 + it.DTgt), TgtRoot: rootOf(0, 3), Domain: append([]byte{1, 0, 0, 0}, make([]byte, 28)...)}
}

func (it *Item) prop(base uint64) *vkit.Prop {
	return &vkit.Prop{Slot: uint64(int64(base) + it.DTgt), ProposerIndex: 1, ParentRoot: rootOf(it.Root, 4), StateRoot: rootOf(0, 5), BodyRoot: rootOf(0, 6), Domain: make([]byte, 32)}
}

func keyName(k int) string { return fmt.Sprintf("%x", world.Accounts[k].PubKey) }

// modelFromExport rebuilds the watermark model from a normalised export.
func modelFromExport(exp map[string][3]int64) *vkit.Model {
	m := vkit.NewModel()
	for k, e := range exp {
		w := &vkit.WM{}
		if e[0] >= 0 {
			w.HasPro, w.Slot = true, uint64(e[0])
		}
		if e[1] >= 0 || e[2] >= 0 {
			w.HasAtt, w.Src, w.Tgt = true, uint64(e[1]), uint64(e[2])
		}
		m.Keys[k] = w
	}

	return m
}

func exportOfModel(m *vkit.Model) map[string][3]int64 {
	out := map[string][3]int64{}
	for k, w := range m.Keys {
		e := [3]int64{-1, -1, -1}
		if w.HasPro {
			e[0] = int64(w.Slot)
		}
		if w.HasAtt {
			e[1], e[2] = int64(w.Src), int64(w.Tgt)
		}
		if e != [3]int64{-1, -1, -1} {
			out[k] = e
		}
	}

	return out
}

// applyReq applies one request atomically to the model and returns its verdict vector.
func applyReq(m *vkit.Model, q *Req, base uint64) []bool {
	out := make([]bool, len(q.Items))
	for i := range q.Items {
		it := &q.Items[i]
		if q.Kind == "propose" {
			out[i] = m.ApplyProp(keyName(it.Key), it.prop(base))
		} else {
			out[i] = m.ApplyAtt(keyName(it.Key), it.att(base))
		}
	}

	return out
}

type obs struct {
	inv, resp int64
	verdicts  []bool
	states    []string
	failed    bool
	optional  bool
}

// linearizable searches for an order compatible with real time that reproduces all verdicts and
// the final state.
//
// A request marked optional (cancelled by its client and answered without verdicts) may either have
// been processed atomically at some point of the order, with whatever verdicts, or not at all.
func linearizable(start *vkit.Model, reqs []Req, ob []obs, base uint64, final map[string][3]int64) bool {
	n := len(reqs)
	used := make([]bool, n)
	var rec func(m *vkit.Model, placed int) bool
	rec = func(m *vkit.Model, placed int) bool {
		if placed == n {
			return reflect.DeepEqual(exportOfModel(m), final)
		}
		for i := 0; i < n; i++ {
			if used[i] {
				continue
			}
			// real-time order: i may go next only if no unplaced request finished before i began
			ok := true
			for j := 0; j < n; j++ {
				if !used[j] && j != i && ob[j].resp < ob[i].inv {
					ok = false

					break
				}
			}
			if !ok {
				continue
			}
			mc := m.Clone()
			v := applyReq(mc, &reqs[i], base)
			if ob[i].optional {
				used[i] = true
				if rec(mc, placed+1) || rec(m.Clone(), placed+1) {
					return true
				}
				used[i] = false

				continue
			}
			if !reflect.DeepEqual(v, ob[i].verdicts) {
				continue
			}
			used[i] = true
			if rec(mc, placed+1) {
				return true
			}
			used[i] = false
		}

		return false
	}

	return rec(start, 0)
}

type outcome struct {
	rounds, nontrivial, parked, inconclusive, cancelled, cancelledUnanswered int
	classes                                                                  map[string]int
	lastObs                                                                  []map[string]any
}

func conflictItems(a, b *Req) bool {
	for _, x := range a.Items {
		for _, y := range b.Items {
			if x.Key == y.Key && (a.Kind == "propose") == (b.Kind == "propose") {
				return true
			}
		}
	}

	return false
}

func run(c *Case) (*outcome, *vkit.Violation, error) {
	if err := setup(); err != nil {
		return nil, nil, err
	}
	old := runtime.GOMAXPROCS(c.Procs)
	defer runtime.GOMAXPROCS(old)
	st, err := vkit.NewStack(vkit.StackOpts{World: world, SharedFetcher: fetcher, Permissions: vkit.AllPermissions(client)})
	if err != nil {
		return nil, nil, err
	}
	defer st.Close()
	defer verifhook.Set(nil)
	o := &outcome{classes: map[string]int{}}
	var clock atomic.Int64
	for ri := range c.Rounds {
		round := &c.Rounds[ri]
		base := uint64(10 * (ri + 1))
		before, err := st.Export()
		if err != nil {
			return o, nil, err
		}
		start := modelFromExport(before)
		// steering
		var pmu sync.Mutex
		pending := append([]Park(nil), round.Parks...)
		var parked, cancelled atomic.Int64
		ctxs := make([]context.Context, len(round.Reqs))
		cancels := make([]context.CancelFunc, len(round.Reqs))
		wasCancelled := make([]atomic.Bool, len(round.Reqs))
		for qi := range round.Reqs {
			ctxs[qi], cancels[qi] = context.WithCancel(context.Background())
		}
		verifhook.Set(func(ev verifhook.Event) error {
			var sleep time.Duration
			cancel := 0
			pmu.Lock()
			for i := range pending {
				p := pending[i]
				if p.Point != ev.Name {
					continue
				}
				hit := false
				for _, k := range ev.Keys {
					if len(k) >= 48 && string(k[:48]) == string(world.Accounts[p.Key].PubKey) {
						hit = true
					}
				}
				if hit {
					sleep = time.Duration(p.MS) * time.Millisecond
					cancel = p.Cancel
					pending = append(pending[:i:i], pending[i+1:]...)

					break
				}
			}
			pmu.Unlock()
			if cancel > 0 && cancel <= len(cancels) {
				wasCancelled[cancel-1].Store(true)
				cancelled.Add(1)
				cancels[cancel-1]()
			}
			if sleep > 0 {
				parked.Add(1)
				time.Sleep(sleep)
			}

			return nil
		})
		ob := make([]obs, len(round.Reqs))
		var wg sync.WaitGroup
		startCh := make(chan struct{})
		for qi := range round.Reqs {
			wg.Add(1)
			go func(qi int) {
				defer wg.Done()
				defer vkit.SetBaseCtx(ctxs[qi])()
				defer cancels[qi]()
				q := &round.Reqs[qi]
				ts := make([]vkit.Target, len(q.Items))
				for i, it := range q.Items {
					ts[i] = vkit.TargetOf(world.Accounts[it.Key], (qi+i)%2 == 0)
				}
				<-startCh
				if q.DelayUS > 0 {
					time.Sleep(time.Duration(q.DelayUS) * time.Microsecond)
				}
				var rs []vkit.Res
				ob[qi].inv = clock.Add(1)
				switch q.Kind {
				case "attest":
					rs = []vkit.Res{st.Attest(client, "", ts[0], q.ViaGRPC, q.Items[0].att(base))}
				case "attests":
					as := make([]*vkit.Att, len(q.Items))
					for i := range q.Items {
						as[i] = q.Items[i].att(base)
					}
					rs = st.AttestBatch(client, "", ts, q.ViaGRPC, as)
				case "propose":
					rs = []vkit.Res{st.Propose(client, "", ts[0], q.ViaGRPC, q.Items[0].prop(base))}
				}
				ob[qi].resp = clock.Add(1)
				for _, r := range rs {
					ob[qi].states = append(ob[qi].states, r.State)
					switch {
					case r.OK() && r.Released():
						ob[qi].verdicts = append(ob[qi].verdicts, true)
					case r.State == "DENIED" && !r.Released():
						ob[qi].verdicts = append(ob[qi].verdicts, false)
					default:
						ob[qi].failed = true
					}
				}
				if len(rs) != len(q.Items) {
					ob[qi].failed = true
				}
			}(qi)
		}
		close(startCh)
		wg.Wait()
		verifhook.Set(nil)
		o.parked += int(parked.Load())
		o.cancelled += int(cancelled.Load())
		if cancelled.Load() > 0 {
			// anything a cancelled request left running gets time to land before the state is read
			time.Sleep(25 * time.Millisecond)
		}
		after, err := st.Export()
		if err != nil {
			return o, nil, err
		}
		o.lastObs = nil
		for qi := range round.Reqs {
			o.lastObs = append(o.lastObs, map[string]any{"req": round.Reqs[qi], "inv": ob[qi].inv, "resp": ob[qi].resp, "states": ob[qi].states})
		}
		o.rounds++
		inconclusive := false
		for qi := range ob {
			if ob[qi].failed && wasCancelled[qi].Load() {
				ob[qi].optional = true
				o.cancelledUnanswered++

				continue
			}
			if ob[qi].failed {
				inconclusive = true
			}
		}
		if inconclusive {
			// FAILED/UNKNOWN answers are not expected without injected faults; they are C06's subject
			o.inconclusive++

			continue
		}
		if !linearizable(start, round.Reqs, ob, base, after) {
			return o, vkit.Violf("not-linearizable", "round %d (base epoch %d): no order of the %d requests that respects real time reproduces the observed verdicts and final state; start %v, final %v, observed %s", ri, base, len(round.Reqs), before, after, mustJSON(o.lastObs)), nil
		}
		// classification
		for a := 0; a < len(round.Reqs); a++ {
			for b := a + 1; b < len(round.Reqs); b++ {
				if !conflictItems(&round.Reqs[a], &round.Reqs[b]) {
					continue
				}
				if ob[a].inv < ob[b].resp && ob[b].inv < ob[a].resp {
					o.nontrivial++
					ka, kb := round.Reqs[a].Kind, round.Reqs[b].Kind
					if ka > kb {
						ka, kb = kb, ka
					}
					o.classes[ka+"||"+kb]++
				}
			}
		}
	}

	return o, nil, nil
}

func mustJSON(v any) string {
	b, _ := json.Marshal(v)

	return string(b)
}

// TestC04 decides C04.
func TestC04(t *testing.T) {
	defer vkit.Flush()
	for _, r := range vkit.ReplayFiles("TestC04") {
		var c Case
		if err := json.Unmarshal(r.Case, &c); err != nil {
			t.Fatalf("bad replay case: %v", err)
		}
		for i := 0; i < 200; i++ {
			_, v, err := run(&c)
			if err != nil {
				t.Fatalf("replay infrastructure error: %v", err)
			}
			vkit.Report(t, "C04", "TestC04", &c, v)
		}
	}
	if vkit.ReplayOnly() {
		return
	}
	rapid.Check(t, func(rt *rapid.T) {
		c := &Case{Procs: rapid.SampledFrom([]int{2, 4, 8, 16}).Draw(rt, "gomaxprocs")}
		n := rapid.IntRange(1, 5).Draw(rt, "rounds")
		for i := 0; i < n; i++ {
			c.Rounds = append(c.Rounds, genRound(rt))
		}
		stop := vkit.Watch(c, 120*time.Second)
		o, v, err := run(c)
		stop()
		if err != nil {
			rt.Fatalf("INFRA: %v", err)
		}
		vkit.S.Eval()
		vkit.S.ClassN("rounds", o.rounds)
		vkit.S.ClassN("overlapping-conflicting-pairs", o.nontrivial)
		vkit.S.ClassN("parked-at-hook", o.parked)
		vkit.S.ClassN("request-contexts-cancelled-at-a-hook-point", o.cancelled)
		vkit.S.ClassN("cancelled-requests-answered-without-verdict", o.cancelledUnanswered)
		vkit.S.ClassN("inconclusive-rounds", o.inconclusive)
		for k, n := range o.classes {
			vkit.S.ClassN(k, n)
		}
		if o.nontrivial > 0 {
			vkit.S.Nontrivial(c)
		}
		vkit.S.Sample(map[string]any{"case": c, "last_round_observed": o.lastObs}, o.nontrivial > 2)
		vkit.Report(rt, "C04", "TestC04", c, v)
	})
}

// FreshCase drives first-time locking of keys: K fresh keys, each hit by N simultaneous conflicting
// requests straight at the ruler (less jitter than through the signer), the first arrival parked
// between its read and its write.
type FreshCase struct {
	Procs  int   `json:"gomaxprocs"`
	Rivals []int `json:"rivals_per_key"`
	ParkMS int   `json:"park_ms"`
}

var (
	freshOnce  sync.Once
	freshWorld *vkit.World
	freshFetch *memfetcher.Service
	freshErr   error
)

const freshKeys = 48

func runFresh(c *FreshCase) (int, *vkit.Violation, error) {
	freshOnce.Do(func() {
		freshWorld, freshErr = vkit.SimpleWorld(freshKeys)
		if freshErr == nil {
			freshFetch, freshErr = vkit.NewFetcher(freshWorld)
		}
	})
	if freshErr != nil {
		return 0, nil, freshErr
	}
	old := runtime.GOMAXPROCS(c.Procs)
	defer runtime.GOMAXPROCS(old)
	st, err := vkit.NewStack(vkit.StackOpts{World: freshWorld, SharedFetcher: freshFetch, Permissions: vkit.AllPermissions(client)})
	if err != nil {
		return 0, nil, err
	}
	defer st.Close()
	defer verifhook.Set(nil)
	var pmu sync.Mutex
	parkedKeys := map[string]bool{}
	verifhook.Set(func(ev verifhook.Event) error {
		if ev.Name != "store.fetch.exit" || c.ParkMS == 0 {
			return nil
		}
		k := string(ev.Keys[0][:48])
		pmu.Lock()
		first := !parkedKeys[k]
		parkedKeys[k] = true
		pmu.Unlock()
		if first {
			time.Sleep(time.Duration(c.ParkMS) * time.Millisecond)
		}

		return nil
	})
	contested := 0
	for ki, n := range c.Rivals {
		acc := freshWorld.Accounts[ki%freshKeys]
		var gate atomic.Int32
		var wg sync.WaitGroup
		res := make([]rules.Result, n)
		for i := 0; i < n; i++ {
			wg.Add(1)
			go func(i int) {
				defer wg.Done()
				data := []*ruler.RulesData{{WalletName: acc.Wallet, AccountName: acc.Name, PubKey: acc.PubKey, Data: &rules.SignBeaconAttestationData{
					Domain: append([]byte{1, 0, 0, 0}, make([]byte, 28)...), Slot: 1, BeaconBlockRoot: rootOf(i, 1),
					Source: &rules.Checkpoint{Epoch: 3, Root: rootOf(0, 2)}, Target: &rules.Checkpoint{Epoch: 4, Root: rootOf(0, 3)},
				}}}
				creds := vkit.Creds(client, "")
				ctx := vkit.Ctx(client, "")
				gate.Add(1)
				for gate.Load() < int32(n) {
				}
				res[i] = st.Ruler.RunRules(ctx, creds, ruler.ActionSignBeaconAttestation, data)[0]
			}(i)
		}
		wg.Wait()
		ok := 0
		for _, r := range res {
			if r == rules.APPROVED {
				ok++
			}
		}
		if ok > 1 {
			return contested, vkit.Violf("conflicting-requests-both-signed.first-lock", "key %d (never locked before): %d of %d simultaneous attestations with the same target and different data were approved", ki, ok, n), nil
		}
		if ok == 0 {
			return contested, vkit.Violf("spurious-refusal.first-lock", "key %d: none of %d simultaneous first attestations was signed", ki, n), nil
		}
		contested++
	}

	return contested, nil, nil
}

// TestC04Fresh is the first-lock sub-check of C04.
func TestC04Fresh(t *testing.T) {
	defer vkit.Flush()
	for _, r := range vkit.ReplayFiles("TestC04Fresh") {
		var c FreshCase
		if err := json.Unmarshal(r.Case, &c); err != nil {
			t.Fatalf("bad replay case: %v", err)
		}
		for i := 0; i < 200; i++ {
			_, v, err := runFresh(&c)
			if err != nil {
				t.Fatalf("replay infrastructure error: %v", err)
			}
			vkit.Report(t, "C04", "TestC04Fresh", &c, v)
		}
	}
	if vkit.ReplayOnly() {
		return
	}
	rapid.Check(t, func(rt *rapid.T) {
		c := &FreshCase{Procs: rapid.SampledFrom([]int{4, 8, 16}).Draw(rt, "gomaxprocs"), ParkMS: rapid.SampledFrom([]int{0, 1, 2}).Draw(rt, "park")}
		c.Rivals = rapid.SliceOfN(rapid.IntRange(2, 4), 8, freshKeys).Draw(rt, "rivals")
		stop := vkit.Watch(c, 120*time.Second)
		n, v, err := runFresh(c)
		stop()
		if err != nil {
			rt.Fatalf("INFRA: %v", err)
		}
		vkit.S.Eval()
		vkit.S.ClassN("first-lock-contests", n)
		vkit.S.Nontrivial(c)
		vkit.Report(rt, "C04", "TestC04Fresh", c, v)
	})
}
