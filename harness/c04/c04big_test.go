package c04

import (
	"encoding/json"
	"fmt"
	"runtime"
	"sync"
	"sync/atomic"
	"testing"
	"time"

	"pgregory.net/rapid"

	"verif/harness/vkit"
)

// BigCase is one large batch (more keys than any internal chunking is likely to use) racing with single
// requests and possibly a second large batch over the same keys in the opposite order: the whole batch must
// still look as if it had been processed at one moment.
type BigCase struct {
	Procs   int      `json:"gomaxprocs"`
	N       int      `json:"batch_keys"` // 130..300
	Second  bool     `json:"second_batch_in_reverse_order"`
	Singles []BigOne `json:"singles"`
}

// BigOne is a single attestation on one of the batch's keys, for the same target with other content.
type BigOne struct {
	Key     int `json:"key"`
	DelayUS int `json:"delay_us"`
}

const bigKeys = 300

var (
	bigOnce  sync.Once
	bigWorld *vkit.World
	bigErr   error
)

func runBig(c *BigCase) (int, *vkit.Violation, error) {
	bigOnce.Do(func() {
		bigWorld, bigErr = vkit.SimpleWorld(bigKeys)
		if bigErr == nil {
			world = bigWorld // keyName and the model helpers of this package read the package-level world
			fetcher, bigErr = vkit.NewFetcher(bigWorld)
		}
	})
	if bigErr != nil {
		return 0, nil, bigErr
	}
	old := runtime.GOMAXPROCS(c.Procs)
	defer runtime.GOMAXPROCS(old)
	st, err := vkit.NewStack(vkit.StackOpts{World: world, SharedFetcher: fetcher, Permissions: vkit.AllPermissions(client)})
	if err != nil {
		return 0, nil, err
	}
	defer st.Close()
	base := uint64(10)
	var reqs []Req
	b1 := Req{Kind: "attests"}
	for k := 0; k < c.N; k++ {
		b1.Items = append(b1.Items, Item{Key: k, Root: 0})
	}
	reqs = append(reqs, b1)
	if c.Second {
		b2 := Req{Kind: "attests", DelayUS: 200}
		for k := c.N - 1; k >= 0; k-- {
			b2.Items = append(b2.Items, Item{Key: k, Root: 1})
		}
		reqs = append(reqs, b2)
	}
	for _, s := range c.Singles {
		reqs = append(reqs, Req{Kind: "attest", DelayUS: s.DelayUS, Items: []Item{{Key: s.Key % c.N, Root: 2}}})
	}
	before, err := st.Export()
	if err != nil {
		return 0, nil, err
	}
	start := modelFromExport(before)
	ob := make([]obs, len(reqs))
	var clock atomic.Int64
	var wg sync.WaitGroup
	startCh := make(chan struct{})
	for qi := range reqs {
		wg.Add(1)
		go func(qi int) {
			defer wg.Done()
			q := &reqs[qi]
			ts := make([]vkit.Target, len(q.Items))
			as := make([]*vkit.Att, len(q.Items))
			for i, it := range q.Items {
				ts[i] = vkit.TargetOf(world.Accounts[it.Key], (qi+i)%2 == 0)
				as[i] = q.Items[i].att(base)
			}
			<-startCh
			if q.DelayUS > 0 {
				time.Sleep(time.Duration(q.DelayUS) * time.Microsecond)
			}
			var rs []vkit.Res
			ob[qi].inv = clock.Add(1)
			if q.Kind == "attest" {
				rs = []vkit.Res{st.Attest(client, "", ts[0], false, as[0])}
			} else {
				rs = st.AttestBatch(client, "", ts, false, as)
			}
			ob[qi].resp = clock.Add(1)
			for _, r := range rs {
				switch {
				case r.OK() && r.Released():
					ob[qi].verdicts = append(ob[qi].verdicts, true)
				case r.State == "DENIED" && !r.Released():
					ob[qi].verdicts = append(ob[qi].verdicts, false)
				default:
					ob[qi].failed = true
				}
			}
			if len(rs) != len(q.Items) {
				ob[qi].failed = true
			}
		}(qi)
	}
	close(startCh)
	wg.Wait()
	after, err := st.Export()
	if err != nil {
		return 0, nil, err
	}
	overlapped := 0
	for qi := 1; qi < len(reqs); qi++ {
		if ob[qi].inv < ob[0].resp && ob[0].inv < ob[qi].resp {
			overlapped++
		}
	}
	for qi := range ob {
		if ob[qi].failed {
			return overlapped, nil, nil // FAILED answers are C06's subject; this round decides nothing
		}
	}
	if !linearizable(start, reqs, ob, base, after) {
		split := map[bool]int{}
		for _, v := range ob[0].verdicts {
			split[v]++
		}
		return overlapped, vkit.Violf("not-linearizable.large-batch", "a batch over %d keys and %d other requests: no order that respects real time reproduces the observed verdicts and final state (the batch itself: %d positions signed, %d refused; second batch: %v; singles %+v)",
			c.N, len(reqs)-1, split[true], split[false], c.Second, c.Singles), nil
	}

	return overlapped, nil, nil
}

// TestC04Big decides C04 for batches of hundreds of keys.
func TestC04Big(t *testing.T) {
	defer vkit.Flush()
	for _, r := range vkit.ReplayFiles("TestC04Big") {
		var c BigCase
		if err := json.Unmarshal(r.Case, &c); err != nil {
			t.Fatalf("bad replay case: %v", err)
		}
		for i := 0; i < 50; i++ {
			_, v, err := runBig(&c)
			if err != nil {
				t.Fatalf("replay infrastructure error: %v", err)
			}
			vkit.Report(t, "C04", "TestC04Big", &c, v)
		}
	}
	if vkit.ReplayOnly() {
		return
	}
	rapid.Check(t, func(rt *rapid.T) {
		c := &BigCase{Procs: rapid.SampledFrom([]int{2, 4, 8, 16}).Draw(rt, "gomaxprocs"), N: rapid.SampledFrom([]int{130, 257, 258, 290, 300}).Draw(rt, "n"), Second: rapid.Bool().Draw(rt, "second")}
		ns := rapid.IntRange(0, 3).Draw(rt, "nsingles")
		if !c.Second && ns == 0 {
			ns = 2
		}
		for i := 0; i < ns; i++ {
			c.Singles = append(c.Singles, BigOne{Key: rapid.SampledFrom([]int{0, 1, 128, 255, 256, 257, 289, 299}).Draw(rt, "key"), DelayUS: rapid.SampledFrom([]int{0, 500, 2000, 5000, 10000, 20000}).Draw(rt, "delay")})
		}
		stop := vkit.Watch(c, 120*time.Second)
		overlapped, v, err := runBig(c)
		stop()
		if err != nil {
			rt.Fatalf("INFRA: %v", err)
		}
		vkit.S.Eval()
		vkit.S.ClassN("big:requests-overlapping-the-large-batch", overlapped)
		vkit.S.Class(fmt.Sprintf("big:batch-of-%d-keys", c.N))
		if overlapped > 0 {
			vkit.S.Nontrivial(c)
		}
		vkit.S.Sample(map[string]any{"case": c, "overlapped": overlapped}, overlapped > 1)
		vkit.Report(rt, "C04", "TestC04Big", c, v)
	})
}
