// Package c18 decides C18: listing shows all and only the accounts the client may access.
package c18

import (
	"bytes"
	"encoding/json"
	"fmt"
	"sort"
	"strings"
	"testing"
	"time"

	pb "github.com/wealdtech/eth2-signer-api/pb/v1"
	e2wtypes "github.com/wealdtech/go-eth2-wallet-types/v2"
	"pgregory.net/rapid"

	"verif/harness/vkit"
)

const creator = "creator"

// PathSpec is one requested path.
type PathSpec struct {
	Raw     string    `json:"raw"`               // what is sent
	Wallet  string    `json:"wallet,omitempty"`  // parsed wallet name ("" = the path names no wallet)
	Pattern *vkit.Pat `json:"pattern,omitempty"` // account pattern (nil = all accounts)
	Invalid bool      `json:"invalid,omitempty"` // the account part is not a valid expression
}

// Action is one step.
type Action struct {
	Kind    string     `json:"kind"` // list | create | create-distributed
	Client  string     `json:"client,omitempty"`
	Paths   []PathSpec `json:"paths,omitempty"`
	ViaGRPC bool       `json:"via_grpc,omitempty"`
	Wallet  int        `json:"wallet,omitempty"`
	Name    string     `json:"name,omitempty"`
}

// Case is a population, a configuration and a sequence of actions.
type Case struct {
	Wallets []vkit.WalletSpec `json:"wallets"`
	Config  *vkit.PermConfig  `json:"config"`
	Actions []Action          `json:"actions"`
}

func genName(t *rapid.T, used map[string]bool, label string) string {
	for i := 0; i < 20; i++ {
		n := rapid.IntRange(1, 3).Draw(t, label+"_len")
		b := make([]byte, n)
		for j := range b {
			b[j] = vkit.Alphabet[rapid.IntRange(0, len(vkit.Alphabet)-1).Draw(t, label+"_ch")]
		}
		s := string(b)
		// names must survive the path syntax: no leading/trailing blank
		if strings.TrimSpace(s) != s || used[s] {
			continue
		}
		used[s] = true

		return s
	}
	s := fmt.Sprintf("a%d", len(used))
	used[s] = true

	return s
}

func genCase(t *rapid.T) *Case {
	c := &Case{}
	usedW := map[string]bool{vkit.DWallet: true, vkit.NWallet: true}
	nw := rapid.IntRange(1, 3).Draw(t, "nwallets")
	key := 5000
	var walletNames, accountNames []string
	for i := 0; i < nw; i++ {
		ws := vkit.WalletSpec{Name: "W" + genName(t, usedW, "wname")}
		usedA := map[string]bool{}
		na := rapid.IntRange(0, 8).Draw(t, "naccounts")
		for j := 0; j < na; j++ {
			ws.Accounts = append(ws.Accounts, vkit.AccountSpec{Name: genName(t, usedA, "aname"), KeyIndex: key})
			key++
			accountNames = append(accountNames, ws.Accounts[j].Name)
		}
		walletNames = append(walletNames, ws.Name)
		c.Wallets = append(c.Wallets, ws)
	}
	allWallets := append(append([]string{}, walletNames...), vkit.DWallet)
	if len(accountNames) == 0 {
		accountNames = []string{"a"}
	}
	c.Config = vkit.GenPermConfig(t, []string{"alice", "bob"}, allWallets, accountNames, []string{"Access account"})
	// frequent shapes: everything, or everything but a few accounts
	switch k := rapid.IntRange(0, 9).Draw(t, "shape"); {
	case k < 3:
		c.Config.Clients["alice"] = append([]*vkit.PermEntry{{Wallet: &vkit.Pat{Op: "star", Subs: []*vkit.Pat{{Op: "dot"}}}, Ops: []string{"Access account"}}}, c.Config.Clients["alice"]...)
	case k < 6:
		c.Config.Clients["alice"] = append(c.Config.Clients["alice"], &vkit.PermEntry{Wallet: &vkit.Pat{Op: "star", Subs: []*vkit.Pat{{Op: "dot"}}}, Ops: []string{"All"}})
	}
	c.Config.Clients[creator] = []*vkit.PermEntry{{Wallet: &vkit.Pat{Op: "star", Subs: []*vkit.Pat{{Op: "dot"}}}, Ops: []string{"All"}}}
	createdNames := map[string]bool{}
	n := rapid.IntRange(1, 8).Draw(t, "nactions")
	for i := 0; i < n; i++ {
		switch k := rapid.IntRange(0, 9).Draw(t, "akind"); {
		case k < 6:
			a := Action{Kind: "list", Client: rapid.SampledFrom([]string{"alice", "alice", "alice", "bob", creator, "mallory", ""}).Draw(t, "client"), ViaGRPC: rapid.Bool().Draw(t, "grpc")}
			np := rapid.IntRange(1, 4).Draw(t, "npaths")
			for j := 0; j < np; j++ {
				w := rapid.SampledFrom(allWallets).Draw(t, "pwallet")
				switch pk := rapid.IntRange(0, 19).Draw(t, "pkind"); {
				case pk < 6:
					a.Paths = append(a.Paths, PathSpec{Raw: w, Wallet: w})
				case pk < 14:
					p := vkit.GenTopPat(t, 2, accountNames)
					a.Paths = append(a.Paths, PathSpec{Raw: w + "/" + p.String(), Wallet: w, Pattern: p})
				case pk < 15:
					a.Paths = append(a.Paths, PathSpec{Raw: w + "/", Wallet: w})
				case pk < 16:
					a.Paths = append(a.Paths, PathSpec{Raw: "NoSuchWallet/" + vkit.LitPat("a").String()})
				case pk < 17:
					a.Paths = append(a.Paths, PathSpec{Raw: ""})
				case pk < 18:
					a.Paths = append(a.Paths, PathSpec{Raw: "/x"})
				case pk < 19:
					a.Paths = append(a.Paths, PathSpec{Raw: w + "/(", Wallet: w, Invalid: true})
				default:
					a.Paths = append(a.Paths, PathSpec{Raw: strings.ToLower(w), Wallet: ""})
				}
			}
			c.Actions = append(c.Actions, a)
		case k < 9:
			c.Actions = append(c.Actions, Action{Kind: "create", Wallet: rapid.IntRange(0, nw-1).Draw(t, "cwallet"), Name: "n" + genName(t, createdNames, "cname")})
		default:
			c.Actions = append(c.Actions, Action{Kind: "create-distributed", Name: "d" + genName(t, createdNames, "dname")})
		}
	}

	return c
}

type truth struct {
	wallet      string
	name        string
	pub         []byte // share / account key
	composite   []byte // distributed only
	distributed bool
}

type outcome struct {
	listings, nontrivial, afterCreate, returned, created, createdDist int
	trace                                                             []string
}

func run(c *Case) (*outcome, *vkit.Violation, error) {
	cl, err := vkit.NewCluster(vkit.ClusterOpts{IDs: []uint64{1, 2}, Permissions: c.Config.ForDirk(), ExtraWallets: c.Wallets})
	if err != nil {
		return nil, nil, fmt.Errorf("cluster: %w", err)
	}
	defer cl.Close()
	node := cl.Nodes[0]
	o := &outcome{}
	var accounts []*truth
	for _, a := range node.World.Accounts {
		if a.Wallet == vkit.NWallet {
			continue
		}
		accounts = append(accounts, &truth{wallet: a.Wallet, name: a.Name, pub: a.PubKey})
	}
	createdSomething := false
	for ai, act := range c.Actions {
		switch act.Kind {
		case "create":
			w := c.Wallets[act.Wallet].Name
			resp, err := node.Generate(creator, w+"/"+act.Name, 1, 1)
			if err != nil {
				return o, nil, err
			}
			if resp.GetState() != pb.ResponseState_SUCCEEDED {
				o.trace = append(o.trace, fmt.Sprintf("create %s/%s failed: %s", w, act.Name, resp.GetMessage()))

				continue
			}
			accounts = append(accounts, &truth{wallet: w, name: act.Name, pub: resp.GetPublicKey()})
			createdSomething = true
			o.created++
			o.trace = append(o.trace, fmt.Sprintf("created %s/%s", w, act.Name))
		case "create-distributed":
			resp, err := node.Generate(creator, vkit.DWallet+"/"+act.Name, 2, 2)
			if err != nil {
				return o, nil, err
			}
			if resp.GetState() != pb.ResponseState_SUCCEEDED {
				o.trace = append(o.trace, fmt.Sprintf("create-distributed %s failed: %s", act.Name, resp.GetMessage()))

				continue
			}
			da, held, err := node.StoredDistAccount(act.Name)
			if err != nil || !held {
				return o, nil, fmt.Errorf("distributed account not stored: %v", err)
			}
			accounts = append(accounts, &truth{wallet: vkit.DWallet, name: act.Name, pub: da.SharePub, composite: resp.GetPublicKey(), distributed: true})
			createdSomething = true
			o.createdDist++
			o.trace = append(o.trace, fmt.Sprintf("created distributed %s", act.Name))
		case "list":
			var raw []string
			for _, p := range act.Paths {
				raw = append(raw, p.Raw)
			}
			type got struct {
				name      string // wallet/account
				pub       []byte
				composite []byte
			}
			var gots []got
			if act.ViaGRPC {
				resp, err := node.Stack.ListerH.ListAccounts(vkit.Ctx(act.Client, ""), vkit.WireRoundTrip(&pb.ListAccountsRequest{Paths: raw}))
				if err != nil {
					return o, nil, err
				}
				for _, a := range resp.GetAccounts() {
					gots = append(gots, got{name: a.GetName(), pub: a.GetPublicKey()})
				}
				for _, a := range resp.GetDistributedAccounts() {
					gots = append(gots, got{name: a.GetName(), pub: a.GetPublicKey(), composite: a.GetCompositePublicKey()})
				}
			} else {
				_, accs := node.Stack.Lister.ListAccounts(vkit.Ctx(act.Client, ""), vkit.Creds(act.Client, ""), raw)
				for _, a := range accs {
					g := got{pub: a.PublicKey().Marshal()}
					wp, ok := a.(e2wtypes.AccountWalletProvider)
					if !ok {
						return o, nil, fmt.Errorf("listed account does not name its wallet")
					}
					g.name = wp.Wallet().Name() + "/" + a.Name()
					if cp, ok := a.(e2wtypes.AccountCompositePublicKeyProvider); ok {
						g.composite = cp.CompositePublicKey().Marshal()
					}
					gots = append(gots, g)
				}
			}
			o.listings++
			o.returned += len(gots)
			// reference sets
			named := map[string]bool{}
			for _, p := range act.Paths {
				if p.Wallet != "" {
					named[p.Wallet] = true
				}
			}
			inU := map[string]*truth{}
			inL := map[string]bool{}
			totalNamed := 0
			for _, a := range accounts {
				if !named[a.wallet] {
					continue
				}
				totalNamed++
				if !c.Config.Allowed(act.Client, a.wallet, a.name, "Access account") {
					continue
				}
				full := a.wallet + "/" + a.name
				inU[full] = a
				for _, p := range act.Paths {
					if p.Wallet == a.wallet && !p.Invalid && p.Pattern.MatchesCase(a.name) {
						inL[full] = true
					}
				}
			}
			where := fmt.Sprintf("action %d: client %q lists %q (grpc=%v)", ai, act.Client, raw, act.ViaGRPC)
			seen := map[string]bool{}
			for _, g := range gots {
				seen[g.name] = true
				tr, ok := inU[g.name]
				if !ok {
					return o, vkit.Violf("listed-inaccessible-account", "%s: the answer contains %q, which is outside the requested wallets or not accessible to the client; trace %v", where, g.name, o.trace), nil
				}
				if !bytes.Equal(g.pub, tr.pub) {
					return o, vkit.Violf("listed-wrong-public-key", "%s: %q is listed with public key %x, it was created with %x", where, g.name, g.pub, tr.pub), nil
				}
				if tr.distributed && !bytes.Equal(g.composite, tr.composite) {
					return o, vkit.Violf("listed-wrong-composite-key", "%s: %q is listed with composite key %x, generation returned %x", where, g.name, g.composite, tr.composite), nil
				}
			}
			var missing []string
			for full := range inL {
				if !seen[full] {
					missing = append(missing, full)
				}
			}
			if len(missing) > 0 {
				sort.Strings(missing)

				return o, vkit.Violf("accessible-account-not-listed", "%s: accessible accounts matching a requested path are missing from the answer: %v (returned %d); trace %v", where, missing, len(gots), o.trace), nil
			}
			if len(inL) > 0 && len(inU) != totalNamed {
				o.nontrivial++
			}
			if createdSomething && len(inL) > 0 {
				o.afterCreate++
			}
		}
	}

	return o, nil, nil
}

// TestC18 decides C18.
func TestC18(t *testing.T) {
	defer vkit.Flush()
	for _, r := range vkit.ReplayFiles("TestC18") {
		var c Case
		if err := json.Unmarshal(r.Case, &c); err != nil {
			t.Fatalf("bad replay case: %v", err)
		}
		o, v, err := run(&c)
		if err != nil {
			t.Fatalf("replay infrastructure error: %v", err)
		}
		t.Logf("replay: trace=%v", o.trace)
		vkit.Report(t, "C18", "TestC18", &c, v)
	}
	if vkit.ReplayOnly() {
		return
	}
	rapid.Check(t, func(rt *rapid.T) {
		c := genCase(rt)
		stop := vkit.Watch(c, 180*time.Second)
		o, v, err := run(c)
		stop()
		if err != nil {
			rt.Fatalf("INFRA: %v", err)
		}
		vkit.S.Eval()
		vkit.S.ClassN("listings", o.listings)
		vkit.S.ClassN("accounts-returned", o.returned)
		vkit.S.ClassN("listings-with-partial-access", o.nontrivial)
		vkit.S.ClassN("listings-after-dynamic-creation", o.afterCreate)
		vkit.S.ClassN("accounts-created-at-run-time", o.created)
		vkit.S.ClassN("distributed-accounts-created-at-run-time", o.createdDist)
		nt := o.nontrivial > 0 || o.afterCreate > 0
		if nt {
			vkit.S.Nontrivial(c)
		}
		vkit.S.Sample(map[string]any{"wallets": c.Wallets, "config": c.Config.ForDirk(), "actions": c.Actions, "trace": o.trace}, o.nontrivial > 0 && o.afterCreate > 0)
		vkit.Report(rt, "C18", "TestC18", c, v)
	})
}
