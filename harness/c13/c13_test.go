// Package c13 decides C13: invalid or failed key-generation exchanges create no account anywhere and
// crash no instance.
package c13

import (
	"bytes"
	"encoding/json"
	"fmt"
	"os"
	"strconv"
	"strings"
	"testing"
	"time"

	"github.com/herumi/bls-eth-go-binary/bls"
	pb "github.com/wealdtech/eth2-signer-api/pb/v1"
	"pgregory.net/rapid"

	"verif/harness/vkit"
)

const client = "client1"

// Fault is one injected fault: the Index-th message of the given kind gets the treatment.
type Fault struct {
	Msg   string `json:"msg"`   // prepare | execute | contribute
	Index int    `json:"index"` // 0-based among messages of that kind
	Kind  string `json:"kind"`
}

// Case is one generation with a fault plan.
type Case struct {
	IDs    []uint64 `json:"ids"`
	N      uint32   `json:"participants"`
	T      uint32   `json:"threshold"`
	Faults []Fault  `json:"faults"`
}

// Kinds of fault per message kind.
var (
	simpleKinds  = []string{"lost", "error-reply", "duplicate"}
	requestKinds = []string{"share-random", "share-for-other-id", "commitment-altered", "vector-short-consistent", "vector-long-consistent", "vector-truncated", "vector-extended", "vector-empty", "share-empty"}
	// after the honest contribution has been delivered and answered, a second one arrives on the same
	// edge with a bad share (same or fresh vector): it must be rejected and change nothing
	replayKinds = []string{"replay-share-random", "replay-share-for-other-id"}
	replyKinds  = []string{"reply-share-random", "reply-share-for-other-id", "reply-commitment-altered", "reply-vector-short-consistent", "reply-vector-long-consistent", "reply-vector-truncated", "reply-vector-extended", "reply-vector-empty", "reply-share-empty"}
)

func kindsFor(msg string) []string {
	if msg == "contribute" {
		return append(append(append(append([]string{}, simpleKinds...), requestKinds...), replyKinds...), replayKinds...)
	}

	return simpleKinds
}

// polynomial returns a fresh polynomial of the given number of coefficients.
func polynomial(n int) ([]bls.SecretKey, [][]byte) {
	sks := make([]bls.SecretKey, n)
	vvec := make([][]byte, n)
	for i := range sks {
		sks[i].SetByCSPRNG()
		vvec[i] = sks[i].GetPublicKey().Serialize()
	}

	return sks, vvec
}

func shareAt(sks []bls.SecretKey, id uint64) []byte {
	var s bls.SecretKey
	if err := s.Set(sks, vkit.BLSID(id)); err != nil {
		panic(err)
	}

	return s.Serialize()
}

func randomPoint() []byte {
	var sk bls.SecretKey
	sk.SetByCSPRNG()

	return sk.GetPublicKey().Serialize()
}

func randomScalar() []byte {
	var sk bls.SecretKey
	sk.SetByCSPRNG()

	return sk.Serialize()
}

// tamper rewrites (secret, vector) of a contribution addressed to shareFor.
func tamper(kind string, secret *[]byte, vvec *[][]byte, shareFor uint64, otherID uint64, t int) {
	switch kind {
	case "share-random":
		*secret = randomScalar()
	case "share-for-other-id":
		sks, v := polynomial(t)
		*secret, *vvec = shareAt(sks, otherID), v
	case "commitment-altered":
		v := append([][]byte{}, (*vvec)...)
		if len(v) == 0 { // an earlier fault on the same message emptied the vector: nothing left to alter
			return
		}
		v[len(v)-1] = randomPoint()
		*vvec = v
	case "vector-short-consistent":
		n := t - 1
		if n < 1 {
			n = 1
		}
		sks, v := polynomial(n)
		*secret, *vvec = shareAt(sks, shareFor), v
	case "vector-long-consistent":
		sks, v := polynomial(t + 1)
		*secret, *vvec = shareAt(sks, shareFor), v
	case "vector-truncated":
		v := append([][]byte{}, (*vvec)...)
		if len(v) == 0 {
			return
		}
		*vvec = v[:len(v)-1]
	case "vector-extended":
		*vvec = append(append([][]byte{}, (*vvec)...), randomPoint())
	case "vector-empty":
		*vvec = nil
	case "share-empty":
		*secret = nil
	}
}

// honest reports whether (secret, vector) is what an honest participant could have sent to id:
// exactly t vector entries and a share that is the vector evaluated at id.
func honest(secret []byte, vvec [][]byte, id uint64, t int) bool {
	if len(vvec) != t {
		return false
	}
	var sk bls.SecretKey
	if err := sk.Deserialize(secret); err != nil {
		return false
	}
	want, err := vkit.EvalVVec(vvec, id)
	if err != nil {
		return false
	}

	return bytes.Equal(sk.GetPublicKey().Serialize(), want)
}

type outcome struct {
	cancelled int
	delivered []string
	success   bool
	message   string
}

func run(c *Case) (*outcome, *vkit.Violation, error) {
	cl, err := vkit.NewCluster(vkit.ClusterOpts{IDs: c.IDs})
	if err != nil {
		return nil, nil, err
	}
	defer cl.Close()
	o := &outcome{}
	counts := map[string]int{}
	pendingReply := map[*vkit.Msg]string{}
	pendingReplay := map[*vkit.Msg]string{}
	replayAccepted := ""
	errorReply := map[*vkit.Msg]bool{}
	otherOf := func(not ...uint64) uint64 {
		for _, id := range c.IDs {
			skip := false
			for _, n := range not {
				if id == n {
					skip = true
				}
			}
			if !skip {
				return id
			}
		}

		return c.IDs[0] + 12345
	}
	cl.Net.Before = func(m *vkit.Msg) error {
		idx := counts[m.Kind]
		counts[m.Kind]++
		tampered := false
		var tamperLog []string
		defer func() {
			// Several faults on one message can cancel each other (extend the vector, then truncate
			// it): what counts is whether the contribution that goes out is still honest.
			if !tampered {
				return
			}
			r := m.Req.(*pb.ContributeRequest)
			if honest(r.GetSecret(), r.GetVerificationVector(), m.To, int(c.T)) {
				o.cancelled++

				return
			}
			o.delivered = append(o.delivered, tamperLog...)
		}()
		for _, f := range c.Faults {
			if f.Msg != m.Kind || f.Index != idx {
				continue
			}
			switch {
			case f.Kind == "lost":
				m.Dropped = true
				o.delivered = append(o.delivered, fmt.Sprintf("%s[%d] %s", m.Kind, idx, f.Kind))
			case f.Kind == "error-reply":
				errorReply[m] = true
			case f.Kind == "duplicate":
				// deliver an identical copy first; the original follows
				dup := &vkit.Msg{Kind: m.Kind, From: m.From, To: m.To, Account: m.Account, Req: m.Req}
				_, _ = cl.Net.DeliverRaw(dup)
				o.delivered = append(o.delivered, fmt.Sprintf("%s[%d] %s", m.Kind, idx, f.Kind))
			case m.Kind == "contribute" && strings.HasPrefix(f.Kind, "replay-"):
				pendingReplay[m] = strings.TrimPrefix(f.Kind, "replay-")
			case m.Kind == "contribute" && len(f.Kind) > 6 && f.Kind[:6] == "reply-":
				pendingReply[m] = f.Kind[6:]
			case m.Kind == "contribute":
				r := m.Req.(*pb.ContributeRequest)
				tamper(f.Kind, &r.Secret, &r.VerificationVector, m.To, otherOf(m.To), int(c.T))
				tampered = true
				tamperLog = append(tamperLog, fmt.Sprintf("%s[%d] %s", m.Kind, idx, f.Kind))
			}
		}

		return nil
	}
	cl.Net.After = func(m *vkit.Msg) error {
		if kind, ok := pendingReplay[m]; ok {
			delete(pendingReplay, m)
			orig := m.Req.(*pb.ContributeRequest)
			r := &pb.ContributeRequest{Account: orig.GetAccount(), Secret: orig.GetSecret(), VerificationVector: orig.GetVerificationVector()}
			tamper(kind, &r.Secret, &r.VerificationVector, m.To, otherOf(m.To), int(c.T))
			_, err := cl.Net.DeliverRaw(&vkit.Msg{Kind: "contribute", From: m.From, To: m.To, Account: m.Account, Req: r})
			o.delivered = append(o.delivered, fmt.Sprintf("contribute-replay replay-%s", kind))
			if err == nil {
				replayAccepted = fmt.Sprintf("instance %d accepted a second contribution from %d whose share does not match its vector (replay-%s)", m.To, m.From, kind)
			}
		}
		if kind, ok := pendingReply[m]; ok {
			r := m.Resp.(*pb.ContributeResponse)
			tamper(kind, &r.Secret, &r.VerificationVector, m.From, otherOf(m.From), int(c.T))
			o.delivered = append(o.delivered, fmt.Sprintf("contribute-reply reply-%s", kind))
		}
		if errorReply[m] {
			o.delivered = append(o.delivered, fmt.Sprintf("%s error-reply", m.Kind))

			return fmt.Errorf("injected error reply")
		}

		return nil
	}
	name := "acc13"
	resp, err := cl.Nodes[0].Generate(client, vkit.DWallet+"/"+name, c.N, c.T)
	if err != nil {
		return o, nil, err
	}
	o.success = resp.GetState() == pb.ResponseState_SUCCEEDED
	o.message = resp.GetMessage()
	where := fmt.Sprintf("generation n=%d t=%d ids %v with faults %v (delivered %v)", c.N, c.T, c.IDs, c.Faults, o.delivered)
	if len(cl.Net.HookPanics) > 0 {
		return o, nil, fmt.Errorf("a hook of the check itself panicked: %s", cl.Net.HookPanics[0])
	}
	if len(cl.Net.Panics) > 0 {
		return o, vkit.Violf("instance-crashed."+firstKind(c), "%s: %v", where, cl.Net.Panics), nil
	}
	if len(o.delivered) == 0 {
		return o, nil, nil // the run never reached the faulted message
	}
	holders := []string{}
	for _, n := range cl.Nodes {
		if s, f := n.HasAccount(name); s || f {
			holders = append(holders, fmt.Sprintf("%d(store=%v,fetcher=%v)", n.ID, s, f))
		}
	}
	// what decides is what was actually delivered (planned faults may never be reached, and
	// several on one message may cancel out)
	onlyReplays, onlyDuplicates := true, true
	for _, d := range o.delivered {
		if !strings.HasSuffix(d, " duplicate") {
			onlyDuplicates = false
		}
		if !strings.HasSuffix(d, " duplicate") && !strings.HasPrefix(d, "contribute-replay ") {
			onlyReplays = false
		}
	}
	if replayAccepted != "" {
		return o, vkit.Violf("bad-contribution-accepted."+firstKind(c), "%s: %s", where, replayAccepted), nil
	}
	if onlyDuplicates || onlyReplays {
		// all-or-nothing
		if o.success && len(holders) != int(c.N) {
			return o, vkit.Violf("duplicate-delivery-inconsistent", "%s: success reported but %d instances hold the account: %v", where, len(holders), holders), nil
		}
		if !o.success && len(holders) != 0 {
			return o, vkit.Violf("duplicate-delivery-inconsistent", "%s: failure reported (%s) but instances hold the account: %v", where, o.message, holders), nil
		}

		return o, nil, nil
	}
	if o.success {
		return o, vkit.Violf("faulty-generation-succeeded."+firstKind(c), "%s: the client was told the generation succeeded", where), nil
	}
	if len(holders) > 0 {
		return o, vkit.Violf("account-created-by-failed-generation."+firstKind(c), "%s: the client got an error (%s) but instances hold an account under that name: %v", where, o.message, holders), nil
	}

	return o, nil, nil
}

func firstKind(c *Case) string {
	for _, f := range c.Faults {
		if f.Kind != "duplicate" {
			return f.Kind
		}
	}

	return "duplicate"
}

// EnumCases is the finite single-fault table.
func EnumCases() []*Case {
	var out []*Case
	for _, nt := range [][2]uint32{{2, 2}, {3, 2}, {3, 3}, {4, 3}, {5, 3}} {
		n, t := nt[0], nt[1]
		ids := []uint64{11, 12, 13, 14, 15}[:n]
		// one bystander instance as well
		idsAll := append(append([]uint64{}, ids...), 99)
		counts := map[string]int{"prepare": int(n), "execute": int(n), "contribute": int(n*(n-1)) / 2}
		for _, msg := range []string{"prepare", "execute", "contribute"} {
			for idx := 0; idx < counts[msg]; idx++ {
				for _, k := range kindsFor(msg) {
					if t == 2 && (k == "vector-short-consistent" || k == "reply-vector-short-consistent") {
						// degree 0: still a consistent too-short vector
					}
					out = append(out, &Case{IDs: idsAll, N: n, T: t, Faults: []Fault{{Msg: msg, Index: idx, Kind: k}}})
				}
			}
		}
	}

	return out
}

func record(c *Case, o *outcome) bool {
	vkit.S.Eval()
	for _, d := range o.delivered {
		var a, b, k string
		fmt.Sscanf(d, "%s %s", &a, &k)
		_ = b
		vkit.S.Class("delivered:" + k)
	}
	if len(o.delivered) > 0 {
		vkit.S.Nontrivial(c)

		return true
	}
	vkit.S.Class("fault-not-reached")

	return false
}

// TestC13Enum runs the complete single-fault table (sharded by case index).
func TestC13Enum(t *testing.T) {
	defer vkit.Flush()
	if vkit.ReplayOnly() {
		return
	}
	shard, _ := strconv.Atoi(os.Getenv("VERIF_SHARD"))
	shards, _ := strconv.Atoi(os.Getenv("VERIF_SHARDS"))
	if shards < 1 {
		shards = 1
	}
	cases := EnumCases()
	for i, c := range cases {
		if i%shards != shard {
			continue
		}
		stop := vkit.Watch(c, 120*time.Second)
		o, v, err := run(c)
		stop()
		if err != nil {
			t.Fatalf("INFRA: %v", err)
		}
		nt := record(c, o)
		vkit.S.Sample(map[string]any{"case": c, "delivered": o.delivered, "client_message": o.message}, nt && i%37 == 0)
		vkit.Report(t, "C13", "TestC13Random", c, v)
		vkit.S.Class("enumerated-single-fault-cases")
	}
}

// TestC13Random draws multi-fault plans over random ids.
func TestC13Random(t *testing.T) {
	defer vkit.Flush()
	for _, r := range vkit.ReplayFiles("TestC13Random") {
		var c Case
		if err := json.Unmarshal(r.Case, &c); err != nil {
			t.Fatalf("bad replay case: %v", err)
		}
		o, v, err := run(&c)
		if err != nil {
			t.Fatalf("replay infrastructure error: %v", err)
		}
		t.Logf("replay: success=%v message=%q delivered=%v", o.success, o.message, o.delivered)
		vkit.Report(t, "C13", "TestC13Random", &c, v)
	}
	if vkit.ReplayOnly() {
		return
	}
	rapid.Check(t, func(rt *rapid.T) {
		nInst := rapid.IntRange(2, 6).Draw(rt, "instances")
		pool := rapid.Permutation([]uint64{1, 2, 3, 1 << 63, 1<<64 - 1, 40000, 7, 1<<63 + 9}).Draw(rt, "ids")
		c := &Case{IDs: pool[:nInst]}
		c.N = uint32(rapid.IntRange(2, nInst).Draw(rt, "n"))
		c.T = uint32(rapid.IntRange(int(c.N)/2+1, int(c.N)).Draw(rt, "t"))
		nf := rapid.IntRange(1, 3).Draw(rt, "nfaults")
		for i := 0; i < nf; i++ {
			msg := rapid.SampledFrom([]string{"prepare", "execute", "contribute", "contribute", "contribute"}).Draw(rt, "msg")
			max := int(c.N)
			if msg == "contribute" {
				max = int(c.N*(c.N-1)) / 2
			}
			c.Faults = append(c.Faults, Fault{Msg: msg, Index: rapid.IntRange(0, max-1).Draw(rt, "index"), Kind: rapid.SampledFrom(kindsFor(msg)).Draw(rt, "kind")})
		}
		stop := vkit.Watch(c, 120*time.Second)
		o, v, err := run(c)
		stop()
		if err != nil {
			rt.Fatalf("INFRA: %v", err)
		}
		record(c, o)
		if len(c.Faults) > 1 {
			vkit.S.Class("multi-fault-plan")
		}
		vkit.Report(rt, "C13", "TestC13Random", c, v)
	})
}
