package vkit

import (
	"context"
	"encoding/binary"
	"fmt"
	"sort"

	"github.com/herumi/bls-eth-go-binary/bls"
	distributed "github.com/wealdtech/go-eth2-wallet-distributed"
	e2wtypes "github.com/wealdtech/go-eth2-wallet-types/v2"
)

// BLSID converts a participant identifier the way Dirk does (little-endian uint64).
func BLSID(id uint64) *bls.ID {
	var res bls.ID
	buf := [8]byte{}
	binary.LittleEndian.PutUint64(buf[:], id)
	if err := res.SetLittleEndian(buf[:]); err != nil {
		panic(err)
	}

	return &res
}

// DistAccount is what one instance holds for a distributed account.
type DistAccount struct {
	SharePub     []byte
	CompositePub []byte
	Threshold    uint32
	VVec         [][]byte
	Participants map[uint64]string
	InFetcher    bool
}

// StoredDistAccount opens the node's distributed wallet afresh from its store and looks the account
// up; ok=false when the store does not hold it.
func (n *Node) StoredDistAccount(name string) (*DistAccount, bool, error) {
	ctx := context.Background()
	w, err := distributed.OpenWallet(ctx, DWallet, n.World.Store, Encryptor())
	if err != nil {
		return nil, false, err
	}
	acc, err := w.(e2wtypes.WalletAccountByNameProvider).AccountByName(ctx, name)
	if err != nil {
		return nil, false, nil
	}
	da := &DistAccount{SharePub: acc.PublicKey().Marshal()}
	if p, ok := acc.(e2wtypes.AccountCompositePublicKeyProvider); ok {
		da.CompositePub = p.CompositePublicKey().Marshal()
	}
	if p, ok := acc.(e2wtypes.AccountSigningThresholdProvider); ok {
		da.Threshold = p.SigningThreshold()
	}
	if p, ok := acc.(e2wtypes.AccountVerificationVectorProvider); ok {
		for _, k := range p.VerificationVector() {
			da.VVec = append(da.VVec, k.Marshal())
		}
	}
	if p, ok := acc.(e2wtypes.AccountParticipantsProvider); ok {
		da.Participants = p.Participants()
	}
	if _, _, err := n.Stack.Fetcher.FetchAccount(ctx, DWallet+"/"+name); err == nil {
		da.InFetcher = true
	}

	return da, true, nil
}

// HasAccount reports whether the instance holds the account in its store or its fetcher.
func (n *Node) HasAccount(name string) (inStore bool, inFetcher bool) {
	ctx := context.Background()
	if w, err := distributed.OpenWallet(ctx, DWallet, n.World.Store, Encryptor()); err == nil {
		if _, err := w.(e2wtypes.WalletAccountByNameProvider).AccountByName(ctx, name); err == nil {
			inStore = true
		}
	}
	if _, _, err := n.Stack.Fetcher.FetchAccount(ctx, DWallet+"/"+name); err == nil {
		inFetcher = true
	}

	return inStore, inFetcher
}

// EvalVVec evaluates a verification vector at a participant id (the public key of that share).
func EvalVVec(vvec [][]byte, id uint64) ([]byte, error) {
	pks := make([]bls.PublicKey, len(vvec))
	for i := range vvec {
		if err := pks[i].Deserialize(vvec[i]); err != nil {
			return nil, fmt.Errorf("verification vector entry %d: %w", i, err)
		}
	}
	var out bls.PublicKey
	if err := out.Set(pks, BLSID(id)); err != nil {
		return nil, err
	}

	return out.Serialize(), nil
}

// Subsets enumerates all k-subsets of ids (sorted).
func Subsets(ids []uint64, k int) [][]uint64 {
	sort.Slice(ids, func(i, j int) bool { return ids[i] < ids[j] })
	var out [][]uint64
	var rec func(start int, cur []uint64)
	rec = func(start int, cur []uint64) {
		if len(cur) == k {
			out = append(out, append([]uint64(nil), cur...))

			return
		}
		for i := start; i < len(ids); i++ {
			rec(i+1, append(cur, ids[i]))
		}
	}
	rec(0, nil)

	return out
}

// Recover combines partial signatures and reports whether the result verifies under the composite key.
func Recover(partials map[uint64][]byte, subset []uint64, composite []byte, msg []byte) (bool, error) {
	sigs := make([]bls.Sign, len(subset))
	ids := make([]bls.ID, len(subset))
	for i, id := range subset {
		if err := sigs[i].Deserialize(partials[id]); err != nil {
			return false, fmt.Errorf("partial signature of %d: %w", id, err)
		}
		ids[i] = *BLSID(id)
	}
	var pk bls.PublicKey
	if err := pk.Deserialize(composite); err != nil {
		return false, err
	}
	var sig bls.Sign
	if err := sig.Recover(sigs, ids); err != nil {
		return false, nil
	}

	return sig.VerifyByte(&pk, msg), nil
}
