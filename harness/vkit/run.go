package vkit

import (
	"bufio"
	"crypto/sha256"
	"encoding/hex"
	"encoding/json"
	"fmt"
	"os"
	"sort"
	"strings"
	"sync"
	"time"
)

// TB is the part of testing.TB / rapid.T the harness needs.
type TB interface {
	Fatalf(format string, args ...any)
	Logf(format string, args ...any)
	Helper()
}

// Violation is a property violation found by an interpreter.
type Violation struct {
	Sig string `json:"sig"` // class signature, matched against KNOWN_FINDINGS
	Msg string `json:"msg"`
}

func (v *Violation) Error() string { return v.Sig + ": " + v.Msg }

// Violf builds a violation.
func Violf(sig string, format string, args ...any) *Violation {
	return &Violation{Sig: sig, Msg: fmt.Sprintf(format, args...)}
}

// Stats are the per-process coverage counters (DESIGN 1.6).
type Stats struct {
	mu          sync.Mutex
	Evaluations int            `json:"evaluations"`
	NTHashes    []string       `json:"nontrivial_hashes"`
	Classes     map[string]int `json:"classes"`
	Samples     []any          `json:"samples"`
	Interesting []any          `json:"interesting_samples"`
	Known       map[string]int `json:"known_findings"`
	Excluded    int            `json:"excluded_known"`
	Notes       []string       `json:"notes"`
	nt          map[string]struct{}
}

// S is the process-wide stats object.
var S = &Stats{Classes: map[string]int{}, Known: map[string]int{}, nt: map[string]struct{}{}}

// Eval counts one executed case.
func (s *Stats) Eval() {
	s.mu.Lock()
	s.Evaluations++
	s.mu.Unlock()
}

// Hash returns a short canonical hash of a JSON-serialisable value.
func Hash(v any) string {
	b, err := json.Marshal(v)
	if err != nil {
		b = []byte(fmt.Sprintf("%#v", v))
	}
	h := sha256.Sum256(b)

	return hex.EncodeToString(h[:12])
}

// Nontrivial records that the case satisfied the property's non-triviality rule.
func (s *Stats) Nontrivial(c any) {
	h := Hash(c)
	s.mu.Lock()
	s.nt[h] = struct{}{}
	s.mu.Unlock()
}

// Class counts one occurrence of a generator class.
func (s *Stats) Class(name string) {
	s.mu.Lock()
	s.Classes[name]++
	s.mu.Unlock()
}

// ClassN adds n to a class counter.
func (s *Stats) ClassN(name string, n int) {
	s.mu.Lock()
	s.Classes[name] += n
	s.mu.Unlock()
}

// Note records a free-text note once.
func (s *Stats) Note(n string) {
	s.mu.Lock()
	defer s.mu.Unlock()
	for _, x := range s.Notes {
		if x == n {
			return
		}
	}
	if len(s.Notes) < 20 {
		s.Notes = append(s.Notes, n)
	}
}

// Sample keeps the first few cases verbatim; interesting ones are kept separately.
func (s *Stats) Sample(c any, interesting bool) {
	s.mu.Lock()
	defer s.mu.Unlock()
	if interesting {
		if len(s.Interesting) < 4 {
			s.Interesting = append(s.Interesting, c)
		}

		return
	}
	if len(s.Samples) < 3 {
		s.Samples = append(s.Samples, c)
	}
}

// Flush writes the stats to $VERIF_STATS.
func Flush() {
	path := os.Getenv("VERIF_STATS")
	if path == "" {
		return
	}
	S.mu.Lock()
	defer S.mu.Unlock()
	S.NTHashes = S.NTHashes[:0]
	for h := range S.nt {
		S.NTHashes = append(S.NTHashes, h)
	}
	sort.Strings(S.NTHashes)
	b, err := json.Marshal(S)
	if err != nil {
		fmt.Fprintf(os.Stderr, "verif: cannot marshal stats: %v\n", err)

		return
	}
	tmp := path + ".tmp"
	if err := os.WriteFile(tmp, b, 0o644); err == nil {
		_ = os.Rename(tmp, path)
	}
}

// ---------------------------------------------------------------------------------------------
// Known findings

var (
	knownOnce sync.Once
	known     map[string]string // "ID sig" -> text
)

func loadKnown() {
	known = map[string]string{}
	path := os.Getenv("VERIF_KNOWN")
	if path == "" {
		return
	}
	f, err := os.Open(path)
	if err != nil {
		return
	}
	defer f.Close()
	sc := bufio.NewScanner(f)
	for sc.Scan() {
		line := strings.TrimSpace(sc.Text())
		if !strings.HasPrefix(line, "finding:") {
			continue // "fixed:" lines and comments suppress nothing
		}
		fields := strings.Fields(strings.TrimPrefix(line, "finding:"))
		var id, sig string
		var rest []string
		for _, f := range fields {
			switch {
			case strings.HasPrefix(f, "property=") && id == "":
				id = strings.TrimPrefix(f, "property=")
			case strings.HasPrefix(f, "sig=") && sig == "":
				sig = strings.TrimPrefix(f, "sig=")
			default:
				rest = append(rest, f)
			}
		}
		if id != "" && sig != "" {
			known[id+" "+sig] = strings.Join(rest, " ")
		}
	}
}

// IsKnown reports whether a violation signature is a listed known finding.
func IsKnown(property string, sig string) (string, bool) {
	knownOnce.Do(loadKnown)
	t, ok := known[property+" "+sig]

	return t, ok
}

// Replay is the on-disk form of a (shrunk) failing case.
type Replay struct {
	Property  string          `json:"property"`
	Test      string          `json:"test"`
	Violation *Violation      `json:"violation,omitempty"`
	Case      json.RawMessage `json:"case"`
}

// Report handles a violation found while executing case c: a listed known finding is counted and
// the case is abandoned; anything else writes the replay file and fails the test.
func Report(t TB, property string, test string, c any, v *Violation) {
	t.Helper()
	if v == nil {
		return
	}
	if _, ok := IsKnown(property, v.Sig); ok {
		S.mu.Lock()
		S.Known[v.Sig]++
		S.Excluded++
		S.mu.Unlock()

		return
	}
	WriteReplay(property, test, c, v)
	t.Fatalf("VIOLATION %s [%s] %s", property, v.Sig, v.Msg)
}

// WriteReplay overwrites $VERIF_REPLAY_OUT with the case; the last write wins, which after
// shrinking is the minimal case.
func WriteReplay(property string, test string, c any, v *Violation) {
	path := os.Getenv("VERIF_REPLAY_OUT")
	if path == "" {
		return
	}
	cb, err := json.Marshal(c)
	if err != nil {
		cb = []byte(fmt.Sprintf("%q", fmt.Sprintf("%#v", c)))
	}
	b, _ := json.MarshalIndent(&Replay{Property: property, Test: test, Violation: v, Case: cb}, "", " ")
	_ = os.WriteFile(path, b, 0o644)
}

// ReplayFiles returns the replay inputs requested through $VERIF_REPLAY_IN (a file or a
// directory of *.json files) for the given test name.
func ReplayFiles(test string) []Replay {
	in := os.Getenv("VERIF_REPLAY_IN")
	if in == "" {
		return nil
	}
	var paths []string
	if st, err := os.Stat(in); err == nil && st.IsDir() {
		ents, _ := os.ReadDir(in)
		for _, e := range ents {
			if strings.HasSuffix(e.Name(), ".json") {
				paths = append(paths, in+"/"+e.Name())
			}
		}
	} else {
		paths = []string{in}
	}
	sort.Strings(paths)
	var out []Replay
	for _, p := range paths {
		b, err := os.ReadFile(p)
		if err != nil {
			continue
		}
		var r Replay
		if err := json.Unmarshal(b, &r); err != nil {
			continue
		}
		if r.Test != test {
			continue
		}
		out = append(out, r)
	}

	return out
}

// Tier returns "quick" or "thorough".
func Tier() string {
	if os.Getenv("VERIF_TIER") == "thorough" {
		return "thorough"
	}

	return "quick"
}

// ReplayOnly reports whether only the replay inputs are to be run (./check --replay).
func ReplayOnly() bool { return os.Getenv("VERIF_REPLAY_ONLY") == "1" }

// Watch arms a per-case watchdog: if the returned stop function is not called within d the case is
// written to $VERIF_REPLAY_OUT.hang and the process exits with status 3, which the driver reports as
// inconclusive (exit 2) — except for C15, which owns "requests never finish" and uses its own
// structural confirmation.
// WatchLive is Watch for a check whose property promises an answer: when the case has not finished after d
// and the goroutines carrying one of the markers are confirmed stalled (ConfirmStall: identical stacks over four
// samples, nobody running, nothing else in the process active), that is reported as a violation with the case as
// replay file; an unconfirmed overrun is the usual inconclusive VERIF-HANG.
func WatchLive(property string, test string, c any, d time.Duration, markers ...string) func() {
	done := make(chan struct{})
	go func() {
		select {
		case <-done:
		case <-time.After(d):
			if stacks, ok := ConfirmStall(4, 2*time.Second, markers...); ok {
				if len(stacks) > 4000 {
					stacks = stacks[:4000] + "\n..."
				}
				v := Violf("request-never-answered", "the case did not finish within %s and every request goroutine is blocked for good (identical stacks over 6 s, nothing else active):\n%s", d, stacks)
				if _, known := IsKnown(property, v.Sig); !known {
					WriteReplay(property, test, c, v)
					fmt.Printf("VIOLATION %s [%s] %s\n", property, v.Sig, strings.ReplaceAll(v.Msg, "\n", " | "))
					Flush()
					os.Exit(1)
				}
			}
			if p := os.Getenv("VERIF_REPLAY_OUT"); p != "" {
				b, _ := json.Marshal(c)
				_ = os.WriteFile(p+".hang", b, 0o644)
			}
			fmt.Printf("VERIF-HANG case did not finish within %s: %s\n", d, Hash(c))
			Flush()
			os.Exit(3)
		}
	}()

	return func() { close(done) }
}

func Watch(c any, d time.Duration) func() {
	done := make(chan struct{})
	go func() {
		select {
		case <-done:
		case <-time.After(d):
			if p := os.Getenv("VERIF_REPLAY_OUT"); p != "" {
				b, _ := json.Marshal(c)
				_ = os.WriteFile(p+".hang", b, 0o644)
			}
			fmt.Printf("VERIF-HANG case did not finish within %s: %s\n", d, Hash(c))
			Flush()
			os.Exit(3)
		}
	}()

	return func() { close(done) }
}
