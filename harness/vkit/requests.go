package vkit

import (
	"fmt"

	"github.com/attestantio/dirk/core"
	"github.com/attestantio/dirk/rules"
	pb "github.com/wealdtech/eth2-signer-api/pb/v1"
	"google.golang.org/protobuf/proto"
)

// Res is the outcome of one signing request (or one batch position).
type Res struct {
	State string `json:"state"` // SUCCEEDED | DENIED | FAILED | UNKNOWN | ERROR
	Sig   []byte `json:"sig,omitempty"`
}

// Released reports whether a signature left Dirk: SUCCEEDED or not, any returned signature counts.
func (r Res) Released() bool { return len(r.Sig) > 0 }

// OK reports SUCCEEDED.
func (r Res) OK() bool { return r.State == "SUCCEEDED" }

func coreState(r core.Result) string {
	switch r {
	case core.ResultSucceeded:
		return "SUCCEEDED"
	case core.ResultDenied:
		return "DENIED"
	case core.ResultFailed:
		return "FAILED"
	case core.ResultUnknown:
		return "UNKNOWN"
	}

	return fmt.Sprintf("core(%d)", int(r))
}

func pbState(s pb.ResponseState) string { return s.String() }

// Target addresses an account by name or by public key.
type Target struct {
	Account string // wallet/account, used when ByKey is false
	PubKey  []byte
	ByKey   bool
}

// TargetOf addresses the account.
func TargetOf(a *AccountInfo, byKey bool) Target {
	return Target{Account: a.Path(), PubKey: a.PubKey, ByKey: byKey}
}

// TargetPadded addresses the account by its public key followed by pad extra bytes (pad > 0 and
// byKey only); Dirk resolves accounts from the first 48 bytes of the field.
func TargetPadded(a *AccountInfo, byKey bool, pad int) Target {
	t := TargetOf(a, byKey)
	if byKey && pad > 0 {
		k := make([]byte, len(a.PubKey)+pad)
		copy(k, a.PubKey)
		for i := len(a.PubKey); i < len(k); i++ {
			k[i] = byte(0x5a + i)
		}
		t.PubKey = k
	}

	return t
}

func (t Target) svc() (string, []byte) {
	if t.ByKey {
		return "", t.PubKey
	}

	return t.Account, nil
}

// WireRoundTrip encodes and decodes a protobuf message, as the gRPC transport would.
func WireRoundTrip[M proto.Message](m M) M {
	b, err := proto.Marshal(m)
	if err != nil {
		panic(err)
	}
	out := m.ProtoReflect().New().Interface().(M)
	if err := proto.Unmarshal(b, out); err != nil {
		panic(err)
	}

	return out
}

func rulesAtt(a *Att) *rules.SignBeaconAttestationData {
	return &rules.SignBeaconAttestationData{
		Domain:          a.Domain,
		Slot:            a.Slot,
		CommitteeIndex:  a.Index,
		BeaconBlockRoot: a.BlockRoot,
		Source:          &rules.Checkpoint{Epoch: a.SrcEpoch, Root: a.SrcRoot},
		Target:          &rules.Checkpoint{Epoch: a.TgtEpoch, Root: a.TgtRoot},
	}
}

func pbAtt(t Target, a *Att) *pb.SignBeaconAttestationRequest {
	r := &pb.SignBeaconAttestationRequest{
		Domain: a.Domain,
		Data: &pb.AttestationData{
			Slot:            a.Slot,
			CommitteeIndex:  a.Index,
			BeaconBlockRoot: a.BlockRoot,
			Source:          &pb.Checkpoint{Epoch: a.SrcEpoch, Root: a.SrcRoot},
			Target:          &pb.Checkpoint{Epoch: a.TgtEpoch, Root: a.TgtRoot},
		},
	}
	if t.ByKey {
		r.Id = &pb.SignBeaconAttestationRequest_PublicKey{PublicKey: t.PubKey}
	} else {
		r.Id = &pb.SignBeaconAttestationRequest_Account{Account: t.Account}
	}

	return r
}

// Attest submits one attestation request, through the signer service or the gRPC handler.
func (s *Stack) Attest(client, ip string, t Target, viaGRPC bool, a *Att) Res {
	if viaGRPC {
		resp, err := s.SignerH.SignBeaconAttestation(Ctx(client, ip), WireRoundTrip(pbAtt(t, a)))
		if err != nil || resp == nil {
			return Res{State: "ERROR"}
		}

		return Res{State: pbState(resp.GetState()), Sig: resp.GetSignature()}
	}
	name, key := t.svc()
	r, sig := s.Signer.SignBeaconAttestation(Ctx(client, ip), Creds(client, ip), name, key, rulesAtt(a))

	return Res{State: coreState(r), Sig: sig}
}

// AttestBatch submits a batch of attestation requests.  The result always has the length that
// Dirk returned; callers check it against the request length.
func (s *Stack) AttestBatch(client, ip string, ts []Target, viaGRPC bool, as []*Att) []Res {
	if viaGRPC {
		req := &pb.SignBeaconAttestationsRequest{}
		for i := range as {
			req.Requests = append(req.Requests, pbAtt(ts[i], as[i]))
		}
		resp, err := s.SignerH.SignBeaconAttestations(Ctx(client, ip), WireRoundTrip(req))
		if err != nil || resp == nil {
			return []Res{{State: "ERROR"}}
		}
		out := make([]Res, len(resp.GetResponses()))
		for i, r := range resp.GetResponses() {
			out[i] = Res{State: pbState(r.GetState()), Sig: r.GetSignature()}
		}

		return out
	}
	names := make([]string, len(as))
	keys := make([][]byte, len(as))
	data := make([]*rules.SignBeaconAttestationData, len(as))
	for i := range as {
		names[i], keys[i] = ts[i].svc()
		data[i] = rulesAtt(as[i])
	}
	rs, sigs := s.Signer.SignBeaconAttestations(Ctx(client, ip), Creds(client, ip), names, keys, data)
	out := make([]Res, len(rs))
	for i := range rs {
		out[i] = Res{State: coreState(rs[i])}
		if i < len(sigs) {
			out[i].Sig = sigs[i]
		}
	}
	// Signatures beyond the results list would still be releases.
	for i := len(rs); i < len(sigs); i++ {
		out = append(out, Res{State: "MISSING", Sig: sigs[i]})
	}

	return out
}

func rulesProp(p *Prop) *rules.SignBeaconProposalData {
	return &rules.SignBeaconProposalData{
		Domain:        p.Domain,
		Slot:          p.Slot,
		ProposerIndex: p.ProposerIndex,
		ParentRoot:    p.ParentRoot,
		StateRoot:     p.StateRoot,
		BodyRoot:      p.BodyRoot,
	}
}

// Propose submits one proposal request.
func (s *Stack) Propose(client, ip string, t Target, viaGRPC bool, p *Prop) Res {
	if viaGRPC {
		r := &pb.SignBeaconProposalRequest{
			Domain: p.Domain,
			Data: &pb.BeaconBlockHeader{
				Slot:          p.Slot,
				ProposerIndex: p.ProposerIndex,
				ParentRoot:    p.ParentRoot,
				StateRoot:     p.StateRoot,
				BodyRoot:      p.BodyRoot,
			},
		}
		if t.ByKey {
			r.Id = &pb.SignBeaconProposalRequest_PublicKey{PublicKey: t.PubKey}
		} else {
			r.Id = &pb.SignBeaconProposalRequest_Account{Account: t.Account}
		}
		resp, err := s.SignerH.SignBeaconProposal(Ctx(client, ip), WireRoundTrip(r))
		if err != nil || resp == nil {
			return Res{State: "ERROR"}
		}

		return Res{State: pbState(resp.GetState()), Sig: resp.GetSignature()}
	}
	name, key := t.svc()
	r, sig := s.Signer.SignBeaconProposal(Ctx(client, ip), Creds(client, ip), name, key, rulesProp(p))

	return Res{State: coreState(r), Sig: sig}
}

// Generic is a generic signing request's data.
type Generic struct {
	Data   []byte `json:"data"`
	Domain []byte `json:"domain"`
}

func pbGeneric(t Target, g *Generic) *pb.SignRequest {
	r := &pb.SignRequest{Data: g.Data, Domain: g.Domain}
	if t.ByKey {
		r.Id = &pb.SignRequest_PublicKey{PublicKey: t.PubKey}
	} else {
		r.Id = &pb.SignRequest_Account{Account: t.Account}
	}

	return r
}

// SignGeneric submits one generic signing request.
func (s *Stack) SignGeneric(client, ip string, t Target, viaGRPC bool, g *Generic) Res {
	if viaGRPC {
		resp, err := s.SignerH.Sign(Ctx(client, ip), WireRoundTrip(pbGeneric(t, g)))
		if err != nil || resp == nil {
			return Res{State: "ERROR"}
		}

		return Res{State: pbState(resp.GetState()), Sig: resp.GetSignature()}
	}
	name, key := t.svc()
	r, sig := s.Signer.SignGeneric(Ctx(client, ip), Creds(client, ip), name, key, &rules.SignData{Data: g.Data, Domain: g.Domain})

	return Res{State: coreState(r), Sig: sig}
}

// Multisign submits a batch of generic signing requests.
func (s *Stack) Multisign(client, ip string, ts []Target, viaGRPC bool, gs []*Generic) []Res {
	if viaGRPC {
		req := &pb.MultisignRequest{}
		for i := range gs {
			req.Requests = append(req.Requests, pbGeneric(ts[i], gs[i]))
		}
		resp, err := s.SignerH.Multisign(Ctx(client, ip), WireRoundTrip(req))
		if err != nil || resp == nil {
			return []Res{{State: "ERROR"}}
		}
		out := make([]Res, len(resp.GetResponses()))
		for i, r := range resp.GetResponses() {
			out[i] = Res{State: pbState(r.GetState()), Sig: r.GetSignature()}
		}

		return out
	}
	names := make([]string, len(gs))
	keys := make([][]byte, len(gs))
	data := make([]*rules.SignData, len(gs))
	for i := range gs {
		names[i], keys[i] = ts[i].svc()
		data[i] = &rules.SignData{Data: gs[i].Data, Domain: gs[i].Domain}
	}
	rs, sigs := s.Signer.Multisign(Ctx(client, ip), Creds(client, ip), names, keys, data)
	out := make([]Res, len(rs))
	for i := range rs {
		out[i] = Res{State: coreState(rs[i])}
		if i < len(sigs) {
			out[i].Sig = sigs[i]
		}
	}
	for i := len(rs); i < len(sigs); i++ {
		out = append(out, Res{State: "MISSING", Sig: sigs[i]})
	}

	return out
}

// Export returns the slashing-protection export of the live rules store, normalised: entries
// whose three values are all -1 are dropped (DESIGN 1.9).
func (s *Stack) Export() (map[string][3]int64, error) {
	if s.RawRules == nil {
		return nil, fmt.Errorf("rules store is closed")
	}
	m, err := s.RawRules.ExportSlashingProtection(Ctx("", ""))
	if err != nil {
		return nil, err
	}
	out := map[string][3]int64{}
	for k, v := range m {
		e := [3]int64{v.HighestProposedSlot, v.HighestAttestedSourceEpoch, v.HighestAttestedTargetEpoch}
		if e == [3]int64{-1, -1, -1} {
			continue
		}
		out[fmt.Sprintf("%x", k[:])] = e
	}

	return out, nil
}
