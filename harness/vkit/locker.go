package vkit

import (
	"bytes"
	"runtime"
	"strconv"
	"sync"
	"sync/atomic"
	"time"

	"github.com/attestantio/dirk/services/locker"
)

// GoID returns the current goroutine's id (parsed from the stack header; test-only helper).
func GoID() int64 {
	var buf [64]byte
	n := runtime.Stack(buf[:], false)
	b := bytes.TrimPrefix(buf[:n], []byte("goroutine "))
	if i := bytes.IndexByte(b, ' '); i > 0 {
		id, _ := strconv.ParseInt(string(b[:i]), 10, 64)

		return id
	}

	return -1
}

// LockEvent is one recorded locker call.
type LockEvent struct {
	Seq  int64  `json:"seq"`
	Req  int    `json:"req"`  // request id (-1 = unregistered goroutine)
	Op   string `json:"op"`   // prelock | prelocked | lock | locked | postlock | unlock
	Key  string `json:"key"`  // short key name, "" for gate operations
	Gate bool   `json:"gate"` // did this request hold the gate at the time
}

// RecordingLocker wraps a real locker: it logs every acquisition attempt before delegating (so a
// stuck round still has a complete record) and can steer the schedule.
type RecordingLocker struct {
	// The wrapped locker is embedded so that methods a changed tree adds to the interface are
	// forwarded (unrecorded) instead of breaking the build.
	locker.Service
	mu    sync.Mutex
	seq   atomic.Int64
	reqOf map[int64]int
	gate  map[int]bool
	first map[int]bool // request has returned from its first Lock
	Log   []LockEvent
	// Steer[x] = y: after request x's first Lock returns, wait (bounded) until request y has
	// returned from its first Lock.
	Steer     map[int]int
	SteerWait time.Duration
	KeyName   func([48]byte) string
	// OnLocked, if set, is called (outside the recorder's mutex) each time a request has taken a key:
	// nth counts the request's acquisitions in this round from 1.
	OnLocked func(req int, nth int)
	nLocked  map[int]int
}

// NewRecordingLocker wraps inner.
func NewRecordingLocker(inner locker.Service) *RecordingLocker {
	return &RecordingLocker{Service: inner, reqOf: map[int64]int{}, gate: map[int]bool{}, first: map[int]bool{}, Steer: map[int]int{}, SteerWait: 5 * time.Millisecond}
}

// Register binds the calling goroutine to a request id.
func (l *RecordingLocker) Register(req int) {
	l.mu.Lock()
	l.reqOf[GoID()] = req
	l.mu.Unlock()
}

// Reset clears the record (between rounds).
func (l *RecordingLocker) Reset() {
	l.mu.Lock()
	l.Log = nil
	l.reqOf = map[int64]int{}
	l.gate = map[int]bool{}
	l.first = map[int]bool{}
	l.Steer = map[int]int{}
	l.nLocked = map[int]int{}
	l.mu.Unlock()
}

func (l *RecordingLocker) rec(op string, key string) int {
	l.mu.Lock()
	defer l.mu.Unlock()
	req, ok := l.reqOf[GoID()]
	if !ok {
		req = -1
	}
	switch op {
	case "prelocked":
		l.gate[req] = true
	case "postlock":
		defer func() { l.gate[req] = false }()
	}
	l.Log = append(l.Log, LockEvent{Seq: l.seq.Add(1), Req: req, Op: op, Key: key, Gate: l.gate[req]})

	return req
}

// Snapshot returns a copy of the record.
func (l *RecordingLocker) Snapshot() []LockEvent {
	l.mu.Lock()
	defer l.mu.Unlock()

	return append([]LockEvent(nil), l.Log...)
}

// PreLock implements locker.Service.
func (l *RecordingLocker) PreLock() {
	l.rec("prelock", "")
	l.Service.PreLock()
	l.rec("prelocked", "")
}

// PostLock implements locker.Service.
func (l *RecordingLocker) PostLock() {
	l.rec("postlock", "")
	l.Service.PostLock()
}

// Lock implements locker.Service.
func (l *RecordingLocker) Lock(key [48]byte) {
	name := l.KeyName(key)
	l.rec("lock", name)
	l.Service.Lock(key)
	req := l.rec("locked", name)
	l.mu.Lock()
	wasFirst := !l.first[req]
	l.first[req] = true
	rival, steer := l.Steer[req]
	if l.nLocked == nil {
		l.nLocked = map[int]int{}
	}
	l.nLocked[req]++
	nth, hook := l.nLocked[req], l.OnLocked
	l.mu.Unlock()
	if hook != nil {
		hook(req, nth)
	}
	if wasFirst && steer {
		deadline := time.Now().Add(l.SteerWait)
		for time.Now().Before(deadline) {
			l.mu.Lock()
			ok := l.first[rival]
			l.mu.Unlock()
			if ok {
				break
			}
			runtime.Gosched()
		}
	}
}

// Unlock implements locker.Service.
func (l *RecordingLocker) Unlock(key [48]byte) {
	l.rec("unlock", l.KeyName(key))
	l.Service.Unlock(key)
}

// TryLock is not part of locker.Service on the tree this harness was written for; it is recorded
// when a changed tree's locker offers it, so that keys taken this way count as held.
func (l *RecordingLocker) TryLock(key [48]byte) bool {
	tl, ok := l.Service.(interface{ TryLock(key [48]byte) bool })
	if !ok {
		return false
	}
	if !tl.TryLock(key) {
		return false
	}
	l.rec("locked", l.KeyName(key))

	return true
}
