package vkit

import (
	"regexp"
	"runtime"
	"sort"
	"strings"
	"time"
)

var goroutineHeader = regexp.MustCompile(`^goroutine (\d+) \[([^\],]+)(?:, [^\]]*)?\]:`)

// Stall is what a process-wide goroutine snapshot says about a set of goroutines of interest.
type Stall struct {
	Watched int      // goroutines whose stack mentions one of the markers
	Active  []string // headers + first frames of goroutines (other than the caller) that are running, runnable or in a system call
	Stacks  string   // the watched goroutines' stacks, normalised (without the "N minutes" part), sorted
}

// SnapshotStall inspects all goroutines.  A goroutine is watched if its stack contains any marker.
func SnapshotStall(markers ...string) Stall {
	buf := make([]byte, 16<<20)
	n := runtime.Stack(buf, true)
	self := GoID()
	var st Stall
	var watched []string
	for _, s := range strings.Split(string(buf[:n]), "\n\n") {
		m := goroutineHeader.FindStringSubmatch(s)
		if m == nil {
			continue
		}
		state := m[2]
		isSelf := m[1] == itoa(self)
		if !isSelf && (state == "running" || state == "runnable" || state == "syscall" || state == "IO wait") {
			// system goroutines parked in a signal wait or in the network poller do not count as activity
			if !strings.Contains(s, "os/signal.signal_recv") && !strings.Contains(s, "internal/poll.runtime_pollWait") {
				lines := strings.SplitN(s, "\n", 3)
				first := ""
				if len(lines) > 1 {
					first = lines[1]
				}
				st.Active = append(st.Active, m[0]+" "+first)
			}
		}
		for _, mk := range markers {
			if strings.Contains(s, mk) {
				st.Watched++
				body := s[len(m[0]):]
				watched = append(watched, "["+state+"]"+stripAddresses(body))

				break
			}
		}
	}
	sort.Strings(watched)
	st.Stacks = strings.Join(watched, "\n\n")

	return st
}

var addrArgs = regexp.MustCompile(`\+0x[0-9a-f]+`)

func stripAddresses(s string) string { return addrArgs.ReplaceAllString(s, "") }

func itoa(v int64) string {
	if v == 0 {
		return "0"
	}
	neg := v < 0
	if neg {
		v = -v
	}
	var b [24]byte
	i := len(b)
	for v > 0 {
		i--
		b[i] = byte('0' + v%10)
		v /= 10
	}
	if neg {
		i--
		b[i] = '-'
	}

	return string(b[i:])
}

// ConfirmStall decides whether the watched goroutines can never make progress: over samples taken
// gap apart, their stacks are identical, none of them is running, runnable or in a system call, and
// no other goroutine of the process is either (so nothing is left that could wake them; timers only
// wake background loops).  It returns the stacks when confirmed.
func ConfirmStall(samples int, gap time.Duration, markers ...string) (string, bool) {
	first := SnapshotStall(markers...)
	if first.Watched == 0 || len(first.Active) > 0 {
		return "", false
	}
	for i := 1; i < samples; i++ {
		time.Sleep(gap)
		s := SnapshotStall(markers...)
		if s.Watched != first.Watched || len(s.Active) > 0 || s.Stacks != first.Stacks {
			return "", false
		}
	}
	for _, blk := range strings.Split(first.Stacks, "\n\n") {
		if strings.HasPrefix(blk, "[running]") || strings.HasPrefix(blk, "[runnable]") || strings.HasPrefix(blk, "[syscall]") || strings.HasPrefix(blk, "[IO wait]") || strings.HasPrefix(blk, "[sleep]") {
			return "", false
		}
	}

	return first.Stacks, true
}
