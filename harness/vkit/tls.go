package vkit

import (
	"crypto/ecdsa"
	"crypto/elliptic"
	"crypto/rand"
	"crypto/x509"
	"crypto/x509/pkix"
	"encoding/pem"
	"math/big"
	"net"
	"time"
)

// CA is a certificate authority minted by the harness.
type CA struct {
	Cert    *x509.Certificate
	Key     *ecdsa.PrivateKey
	CertPEM []byte
}

// NewCA mints an ECDSA P-256 authority.
func NewCA(name string) (*CA, error) {
	key, err := ecdsa.GenerateKey(elliptic.P256(), rand.Reader)
	if err != nil {
		return nil, err
	}
	tmpl := &x509.Certificate{
		SerialNumber:          big.NewInt(time.Now().UnixNano()),
		Subject:               pkix.Name{CommonName: name},
		NotBefore:             time.Now().Add(-24 * time.Hour),
		NotAfter:              time.Now().Add(24 * time.Hour),
		IsCA:                  true,
		KeyUsage:              x509.KeyUsageCertSign | x509.KeyUsageDigitalSignature,
		BasicConstraintsValid: true,
	}
	der, err := x509.CreateCertificate(rand.Reader, tmpl, tmpl, &key.PublicKey, key)
	if err != nil {
		return nil, err
	}
	cert, err := x509.ParseCertificate(der)
	if err != nil {
		return nil, err
	}

	return &CA{Cert: cert, Key: key, CertPEM: pem.EncodeToMemory(&pem.Block{Type: "CERTIFICATE", Bytes: der})}, nil
}

// LeafSpec describes a leaf certificate.
type LeafSpec struct {
	CN         string
	DNS        []string
	IPs        []net.IP
	NotBefore  time.Time
	NotAfter   time.Time
	EKU        []x509.ExtKeyUsage
	SelfSigned bool
}

// Leaf mints a leaf certificate signed by the authority (or by itself).
func (ca *CA) Leaf(s LeafSpec) (certPEM []byte, keyPEM []byte, err error) {
	key, err := ecdsa.GenerateKey(elliptic.P256(), rand.Reader)
	if err != nil {
		return nil, nil, err
	}
	serial, _ := rand.Int(rand.Reader, big.NewInt(1<<62))
	tmpl := &x509.Certificate{
		SerialNumber: serial,
		Subject:      pkix.Name{CommonName: s.CN},
		DNSNames:     s.DNS,
		IPAddresses:  s.IPs,
		NotBefore:    s.NotBefore,
		NotAfter:     s.NotAfter,
		KeyUsage:     x509.KeyUsageDigitalSignature,
		ExtKeyUsage:  s.EKU,
	}
	parent, signer := ca.Cert, ca.Key
	if s.SelfSigned {
		parent, signer = tmpl, key
	}
	der, err := x509.CreateCertificate(rand.Reader, tmpl, parent, &key.PublicKey, signer)
	if err != nil {
		return nil, nil, err
	}
	kb, err := x509.MarshalECPrivateKey(key)
	if err != nil {
		return nil, nil, err
	}

	return pem.EncodeToMemory(&pem.Block{Type: "CERTIFICATE", Bytes: der}), pem.EncodeToMemory(&pem.Block{Type: "EC PRIVATE KEY", Bytes: kb}), nil
}
