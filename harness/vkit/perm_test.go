package vkit

import (
	"regexp"
	"testing"

	"pgregory.net/rapid"
)

// TestPatAgainstRegexp cross-checks the harness's own matcher against Go's regexp on generated patterns
// (a self-test of the oracle; the checks themselves never use regexp on the oracle side).
func TestPatAgainstRegexp(t *testing.T) {
	rapid.Check(t, func(rt *rapid.T) {
		p := GenTopPat(rt, 3, []string{"Wallet1", "ab", "W"})
		re, err := regexp.Compile("(?i)^(?:" + p.String() + ")$")
		if err != nil {
			rt.Fatalf("printer emitted an invalid expression %q: %v", p.String(), err)
		}
		rc := regexp.MustCompile("^(?:" + p.String() + ")$")
		s := p.Sample(rt)
		if rapid.Bool().Draw(rt, "mutate") {
			s = Mutate(rt, s)
		}
		if got, want := p.Matches(s), re.MatchString(s); got != want {
			rt.Fatalf("pattern %q on %q: own matcher %v, regexp %v", p.String(), s, got, want)
		}
		if got, want := p.MatchesCase(s), rc.MatchString(s); got != want {
			rt.Fatalf("pattern %q on %q (case-sensitive): own matcher %v, regexp %v", p.String(), s, got, want)
		}
	})
}

func TestPatNestedStarsTerminate(t *testing.T) {
	dotstar := &Pat{Op: "star", Subs: []*Pat{{Op: "dot"}}}
	p := &Pat{Op: "cat", Subs: []*Pat{{Op: "star", Subs: []*Pat{{Op: "group", Subs: []*Pat{{Op: "cat", Subs: []*Pat{dotstar, dotstar}}}}}}, {Op: "lit", Lit: "!"}}}
	if p.Matches("aaaaaaaaaaaaaaaaaaaaaaaaaaaaaaaaaaaaaaaaaaaaaaaaaaaaaaaaaaaaaaaaaaaaaaaaaaaaaaaaaaaaaaaaaaaaaaaaaa") {
		t.Fatal("should not match")
	}
}
