package vkit

import (
	"context"
	"fmt"
	"os"
	"runtime/debug"
	"sync"
	"sync/atomic"
	"time"

	"github.com/attestantio/dirk/core"
	receiverhandler "github.com/attestantio/dirk/services/api/grpc/handlers/receiver"
	"github.com/attestantio/dirk/services/checker"
	staticpeers "github.com/attestantio/dirk/services/peers/static"
	standardprocess "github.com/attestantio/dirk/services/process/standard"
	"github.com/herumi/bls-eth-go-binary/bls"
	pb "github.com/wealdtech/eth2-signer-api/pb/v1"
	e2wtypes "github.com/wealdtech/go-eth2-wallet-types/v2"
	"google.golang.org/protobuf/proto"
)

// DWallet is the name of the distributed wallet on every node; NWallet is a non-distributed one.
const (
	DWallet = "Wallet 3"
	NWallet = "Wallet 1"
)

// Msg is one protocol message as seen by the harness network.
type Msg struct {
	Seq      int           `json:"seq"`
	Kind     string        `json:"kind"` // prepare | execute | commit | abort | contribute
	From     uint64        `json:"from"`
	To       uint64        `json:"to"`
	Account  string        `json:"account"`
	Req      proto.Message `json:"-"`
	Resp     proto.Message `json:"-"`
	Err      string        `json:"err,omitempty"`
	Panicked string        `json:"panicked,omitempty"`
	Dropped  bool          `json:"dropped,omitempty"`
	// FromName overrides the authenticated name presented to the recipient ("" = the sender's own).
	FromName *string `json:"-"`
}

// Network is the harness's implementation of the wire between instances: every call is converted to
// the protobuf request and handed to the recipient's real receiver handler with the sender's
// certificate name in the context.
type Network struct {
	mu      sync.Mutex
	cluster *Cluster
	Log     []*Msg
	seq     int
	// Before is called with the request before delivery; it may mutate m.Req, set m.Dropped (the
	// message is lost and the sender gets an error), or return an error reply without delivery.
	Before func(m *Msg) error
	// Intercept, if set, may answer a message itself instead of delivering it (handled=true): this
	// is how a check simulates peer instances.
	Intercept func(m *Msg) (resp proto.Message, err error, handled bool)
	// After is called with the reply before it is returned to the sender; it may mutate m.Resp or
	// return an error to replace the reply.
	After func(m *Msg) error
	// CommitOrder, if set, is the order (indices into arrival order) in which parallel commit replies
	// are released to the initiator.
	CommitOrder []int
	commitWait  map[string]*commitGate
	prepCount   map[string]int
	Panics      []string
	// HookPanics are panics inside the check's own hooks (see inHook)
	HookPanics []string
	// hookMu serialises the hooks: Dirk sends commit messages from parallel goroutines, and hooks
	// keep counters.  A hook that needs to send a message of its own uses DeliverRaw.
	hookMu    sync.Mutex
	hookOwner atomic.Int64 // goroutine inside a hook; messages it sends meanwhile bypass the hooks
}

func (n *Network) inHook(f func()) {
	n.hookMu.Lock()
	n.hookOwner.Store(GoID())
	defer func() {
		n.hookOwner.Store(0)
		n.hookMu.Unlock()
		// a panic in a hook is a defect of the check, never of Dirk: record it apart from instance panics
		// (the caller sees an ordinary delivery error) so that the check ends as an infrastructure error
		if r := recover(); r != nil {
			n.mu.Lock()
			n.HookPanics = append(n.HookPanics, fmt.Sprintf("%v\n%s", r, debug.Stack()))
			n.mu.Unlock()
		}
	}()
	f()
}

type commitGate struct {
	n        int
	arrived  int
	released int
	cond     *sync.Cond
	slot     map[int]int // arrival index -> release position
}

// Node is one Dirk instance of a cluster.
type Node struct {
	ID       uint64
	Name     string
	World    *World
	Stack    *Stack
	Process  *standardprocess.Service
	Receiver *receiverhandler.Handler
	Endpoint *core.Endpoint
	Dir      string
	Peers    *staticpeers.Service
}

// Cluster is a set of in-process instances joined by a Network.
type Cluster struct {
	Nodes []*Node
	ByID  map[uint64]*Node
	Net   *Network
}

// ClusterOpts configures a cluster.
type ClusterOpts struct {
	IDs          []uint64
	Permissions  map[string][]*checker.Permissions // nil = client1 may do everything
	Timeout      time.Duration                     // generation timeout (0 = default 70 s)
	NDAccounts   int                               // accounts to pre-create in NWallet on each node
	ExtraWallets []WalletSpec
}

// NodeName returns the certificate name of the instance with the given id position.
func NodeName(i int) string { return fmt.Sprintf("signer-test%02d", i+1) }

// NewCluster builds the instances.
func NewCluster(o ClusterOpts) (*Cluster, error) {
	return NewClusterWithPeers(o, nil)
}

// NewClusterWithPeers builds the instances named in o.IDs; peerIDs (nil = o.IDs) are the ids every
// instance has in its peer table, so a check can play the absent peers itself.
func NewClusterWithPeers(o ClusterOpts, peerIDs []uint64) (*Cluster, error) {
	Init()
	c := &Cluster{ByID: map[uint64]*Node{}}
	c.Net = &Network{cluster: c, commitWait: map[string]*commitGate{}, prepCount: map[string]int{}}
	if peerIDs == nil {
		peerIDs = o.IDs
	}
	peersMap := map[uint64]string{}
	nameOf := map[uint64]int{}
	for i, id := range peerIDs {
		peersMap[id] = fmt.Sprintf("%s:%d", NodeName(i), 9000+i)
		nameOf[id] = i
	}
	for _, id := range o.IDs {
		i := nameOf[id]
		n := &Node{ID: id, Name: NodeName(i), Endpoint: &core.Endpoint{ID: id, Name: NodeName(i), Port: uint32(9000 + i)}}
		specs := []WalletSpec{{Name: DWallet, Distributed: true}}
		nd := WalletSpec{Name: NWallet}
		for a := 0; a < o.NDAccounts; a++ {
			nd.Accounts = append(nd.Accounts, AccountSpec{Name: fmt.Sprintf("Account %d", a), KeyIndex: 1000*i + a})
		}
		specs = append(specs, nd)
		specs = append(specs, o.ExtraWallets...)
		w, err := NewWorld(specs)
		if err != nil {
			return nil, err
		}
		n.World = w
		dir, err := os.MkdirTemp("", "verif-node-")
		if err != nil {
			return nil, err
		}
		n.Dir = dir
		st, err := NewStack(StackOpts{World: w, Dir: dir, Permissions: o.Permissions})
		if err != nil {
			return nil, err
		}
		n.Stack = st
		st.BeginGen = c.Net.BeginGeneration
		ps, err := staticpeers.New(context.Background(), staticpeers.WithPeers(peersMap))
		if err != nil {
			return nil, err
		}
		params := []standardprocess.Parameter{
			standardprocess.WithChecker(st.Checker),
			standardprocess.WithUnlocker(st.Unlocker),
			standardprocess.WithSender(&nodeSender{net: c.Net, from: n}),
			standardprocess.WithFetcher(st.Fetcher),
			standardprocess.WithEncryptor(Encryptor()),
			standardprocess.WithPeers(ps),
			standardprocess.WithID(id),
			standardprocess.WithStores([]e2wtypes.Store{w.Store}),
			standardprocess.WithGenerationPassphrase([]byte(DefaultPassphrase)),
		}
		if o.Timeout > 0 {
			params = append(params, standardprocess.WithGenerationTimeout(o.Timeout))
		}
		proc, err := standardprocess.New(context.Background(), params...)
		if err != nil {
			return nil, err
		}
		n.Process = proc
		n.Peers = ps
		if err := st.SetProcess(proc); err != nil {
			return nil, err
		}
		rh, err := receiverhandler.New(context.Background(), receiverhandler.WithPeers(ps), receiverhandler.WithProcess(proc))
		if err != nil {
			return nil, err
		}
		n.Receiver = rh
		c.Nodes = append(c.Nodes, n)
		c.ByID[id] = n
	}

	return c, nil
}

// Close releases every node.
func (c *Cluster) Close() {
	for _, n := range c.Nodes {
		n.Stack.Close()
		_ = os.RemoveAll(n.Dir)
	}
}

// nodeSender is the sender.Service handed to a node's process service.
type nodeSender struct {
	net  *Network
	from *Node
}

func (n *Network) record(m *Msg) {
	n.mu.Lock()
	n.seq++
	m.Seq = n.seq
	n.Log = append(n.Log, m)
	n.mu.Unlock()
}

// Deliver sends a protocol message to the recipient's receiver handler, honouring the hooks.
func (n *Network) Deliver(m *Msg) (resp proto.Message, err error) {
	return n.deliver(m, true)
}

// DeliverRaw delivers a message without calling the hooks (for use from inside a hook).
func (n *Network) DeliverRaw(m *Msg) (resp proto.Message, err error) {
	return n.deliver(m, false)
}

func (n *Network) deliver(m *Msg, hooks bool) (resp proto.Message, err error) {
	n.record(m)
	if hooks && n.hookOwner.Load() == GoID() {
		hooks = false // sent from inside a hook (for example by the recipient of a duplicated message)
	}
	if hooks && n.Intercept != nil {
		var r proto.Message
		var e error
		var handled bool
		n.inHook(func() { r, e, handled = n.Intercept(m) })
		if handled {
			if e != nil {
				m.Err = e.Error()
			}
			m.Resp = r

			return r, e
		}
	}
	to, ok := n.cluster.ByID[m.To]
	if !ok {
		m.Err = "no such instance"

		return nil, fmt.Errorf("no instance with id %d", m.To)
	}
	if hooks && n.Before != nil {
		var err error
		n.inHook(func() { err = n.Before(m) })
		if err != nil {
			m.Err = err.Error()

			return nil, err
		}
		if m.Dropped {
			m.Err = "lost"

			return nil, fmt.Errorf("message lost")
		}
	}
	name := ""
	if from, ok := n.cluster.ByID[m.From]; ok {
		name = from.Name
	}
	if m.FromName != nil {
		name = *m.FromName
	}
	ctx := Ctx(name, "10.0.0.1")
	func() {
		// A panic in a recipient's handler would take the whole instance down in production (there is
		// no recovery interceptor); here it is recorded and turned into an error reply so that the
		// search can go on.
		defer func() {
			if r := recover(); r != nil {
				m.Panicked = fmt.Sprint(r)
				n.mu.Lock()
				n.Panics = append(n.Panics, fmt.Sprintf("instance %d panicked handling %s from %d: %v", m.To, m.Kind, m.From, r))
				n.mu.Unlock()
				resp, err = nil, fmt.Errorf("recipient crashed: %v", r)
			}
		}()
		switch m.Kind {
		case "prepare":
			resp, err = to.Receiver.Prepare(ctx, WireRoundTrip(m.Req.(*pb.PrepareRequest)))
		case "execute":
			resp, err = to.Receiver.Execute(ctx, WireRoundTrip(m.Req.(*pb.ExecuteRequest)))
		case "commit":
			resp, err = to.Receiver.Commit(ctx, WireRoundTrip(m.Req.(*pb.CommitRequest)))
		case "abort":
			resp, err = to.Receiver.Abort(ctx, WireRoundTrip(m.Req.(*pb.AbortRequest)))
		case "contribute":
			resp, err = to.Receiver.Contribute(ctx, WireRoundTrip(m.Req.(*pb.ContributeRequest)))
		default:
			err = fmt.Errorf("unknown message kind %q", m.Kind)
		}
	}()
	if err != nil {
		m.Err = err.Error()

		return nil, err
	}
	m.Resp = resp
	if hooks && n.After != nil {
		var err error
		n.inHook(func() { err = n.After(m) })
		if err != nil {
			m.Err = err.Error()

			return nil, err
		}
	}

	return m.Resp, nil
}

func pbEndpoints(es []*core.Endpoint) []*pb.Endpoint {
	out := make([]*pb.Endpoint, len(es))
	for i, e := range es {
		out[i] = &pb.Endpoint{Id: e.ID, Name: e.Name, Port: e.Port}
	}

	return out
}

func (s *nodeSender) Prepare(_ context.Context, recipient *core.Endpoint, account string, passphrase []byte, threshold uint32, participants []*core.Endpoint) error {
	s.net.mu.Lock()
	s.net.prepCount[account] = len(participants)
	s.net.mu.Unlock()
	_, err := s.net.Deliver(&Msg{Kind: "prepare", From: s.from.ID, To: recipient.ID, Account: account,
		Req: &pb.PrepareRequest{Account: account, Passphrase: passphrase, Threshold: threshold, Participants: pbEndpoints(participants)}})

	return err
}

func (s *nodeSender) Execute(_ context.Context, recipient *core.Endpoint, account string) error {
	_, err := s.net.Deliver(&Msg{Kind: "execute", From: s.from.ID, To: recipient.ID, Account: account, Req: &pb.ExecuteRequest{Account: account}})

	return err
}

func (s *nodeSender) Commit(_ context.Context, recipient *core.Endpoint, account string, confirmationData []byte) ([]byte, []byte, error) {
	resp, err := s.net.Deliver(&Msg{Kind: "commit", From: s.from.ID, To: recipient.ID, Account: account, Req: &pb.CommitRequest{Account: account, ConfirmationData: confirmationData}})
	s.net.holdCommit(account)
	if err != nil {
		return nil, nil, err
	}
	r := resp.(*pb.CommitResponse)

	return r.GetPublicKey(), r.GetConfirmationSignature(), nil
}

// BeginGeneration resets the commit-reply steering for an account name.
func (n *Network) BeginGeneration(account string) {
	n.mu.Lock()
	delete(n.commitWait, account)
	delete(n.prepCount, account)
	n.mu.Unlock()
}

// holdCommit delays the return of a commit reply until it is this reply's turn in CommitOrder
// (a list of arrival indices; replies not named keep their arrival order after the named ones).
func (n *Network) holdCommit(account string) {
	n.mu.Lock()
	defer n.mu.Unlock()
	if len(n.CommitOrder) == 0 {
		return
	}
	g := n.commitWait[account]
	if g == nil {
		g = &commitGate{n: n.prepCount[account], slot: map[int]int{}}
		g.cond = sync.NewCond(&n.mu)
		n.commitWait[account] = g
	}
	if g.n <= 1 {
		return
	}
	idx := g.arrived
	g.arrived++
	if g.arrived == g.n {
		used := map[int]bool{}
		pos := 0
		for _, want := range n.CommitOrder {
			w := want % g.n
			if used[w] {
				continue
			}
			used[w] = true
			g.slot[w] = pos
			pos++
		}
		for i := 0; i < g.n; i++ {
			if !used[i] {
				g.slot[i] = pos
				pos++
			}
		}
		g.cond.Broadcast()
	}
	deadline := time.Now().Add(2 * time.Second)
	for g.arrived < g.n || g.slot[idx] != g.released {
		if time.Now().After(deadline) {
			break // never wedge a generation on the steering
		}
		waitCond(g.cond, 20*time.Millisecond)
	}
	g.released++
	g.cond.Broadcast()
}

func waitCond(c *sync.Cond, d time.Duration) {
	t := time.AfterFunc(d, c.Broadcast)
	c.Wait()
	t.Stop()
}

func (s *nodeSender) Abort(_ context.Context, recipient *core.Endpoint, account string) error {
	_, err := s.net.Deliver(&Msg{Kind: "abort", From: s.from.ID, To: recipient.ID, Account: account, Req: &pb.AbortRequest{Account: account}})

	return err
}

func (s *nodeSender) SendContribution(_ context.Context, recipient *core.Endpoint, account string, distributionSecret bls.SecretKey, verificationVector []bls.PublicKey) (bls.SecretKey, []bls.PublicKey, error) {
	vVec := make([][]byte, len(verificationVector))
	for i := range verificationVector {
		vVec[i] = verificationVector[i].Serialize()
	}
	resp, err := s.net.Deliver(&Msg{Kind: "contribute", From: s.from.ID, To: recipient.ID, Account: account,
		Req: &pb.ContributeRequest{Account: account, Secret: distributionSecret.Serialize(), VerificationVector: vVec}})
	if err != nil {
		return bls.SecretKey{}, nil, err
	}
	r := resp.(*pb.ContributeResponse)
	// exactly what the gRPC sender does with the reply
	resSecret := bls.SecretKey{}
	if err := resSecret.Deserialize(r.GetSecret()); err != nil {
		return bls.SecretKey{}, nil, fmt.Errorf("returned invalid secret key: %w", err)
	}
	resVVec := make([]bls.PublicKey, len(r.GetVerificationVector()))
	for i, key := range r.GetVerificationVector() {
		if err := resVVec[i].Deserialize(key); err != nil {
			return bls.SecretKey{}, nil, fmt.Errorf("returned invalid verification vector: %w", err)
		}
	}

	return resSecret, resVVec, nil
}

// Generate asks the node's account manager (through the gRPC handler) to generate an account.
func (n *Node) Generate(client string, account string, participants uint32, threshold uint32) (*pb.GenerateResponse, error) {
	return n.GenerateWithPassphrase(client, account, participants, threshold, []byte(DefaultPassphrase))
}

// GenerateWithPassphrase is Generate with an explicit (possibly empty) account passphrase.
func (n *Node) GenerateWithPassphrase(client string, account string, participants uint32, threshold uint32, passphrase []byte) (*pb.GenerateResponse, error) {
	n.Stack.netBegin(account)
	return n.Stack.AccMgrH.Generate(Ctx(client, "10.0.0.9"), WireRoundTrip(&pb.GenerateRequest{Account: account, Passphrase: passphrase, Participants: participants, SigningThreshold: threshold}))
}
