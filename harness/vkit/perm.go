package vkit

import (
	"strings"

	"github.com/attestantio/dirk/services/checker"
	"pgregory.net/rapid"
)

// ---------------------------------------------------------------------------------------------
// Pattern AST: generated as a tree, printed to regular-expression syntax for Dirk, matched by an own
// backtracking matcher (no use of Go's regexp on the oracle side).

// Pat is a pattern node.
type Pat struct {
	Op   string `json:"op"`             // lit | class | nclass | esc | dot | cat | alt | group | star | plus | opt | anchored
	Lit  string `json:"lit,omitempty"`  // lit: one character; class, nclass: the member characters; esc: one of dDwWsS
	Subs []*Pat `json:"subs,omitempty"` // children
}

// Alphabet is the character set names and patterns are drawn from.
var Alphabet = []byte("Wwab120 ")

func quote(c byte) string {
	return string(c) // the alphabet has no regexp metacharacters
}

// String prints the pattern in regular-expression syntax.
func (p *Pat) String() string {
	switch p.Op {
	case "lit":
		return quote(p.Lit[0])
	case "class":
		return "[" + p.Lit + "]"
	case "nclass":
		return "[^" + p.Lit + "]"
	case "esc":
		return "\\" + p.Lit
	case "dot":
		return "."
	case "cat":
		var sb strings.Builder
		for _, s := range p.Subs {
			if s.Op == "alt" {
				sb.WriteString("(" + s.String() + ")")
			} else {
				sb.WriteString(s.String())
			}
		}

		return sb.String()
	case "alt":
		parts := make([]string, len(p.Subs))
		for i, s := range p.Subs {
			parts[i] = s.String()
		}

		return strings.Join(parts, "|")
	case "group":
		return "(" + p.Subs[0].String() + ")"
	case "star":
		return atomString(p.Subs[0]) + "*"
	case "plus":
		return atomString(p.Subs[0]) + "+"
	case "opt":
		return atomString(p.Subs[0]) + "?"
	case "anchored":
		return "^(" + p.Subs[0].String() + ")$"
	}

	return ""
}

func atomString(p *Pat) string {
	switch p.Op {
	case "lit", "class", "nclass", "esc", "dot", "group":
		return p.String()
	}

	return "(" + p.String() + ")"
}

// escMatches gives the Perl character classes their RE2 (ASCII) meaning.
func escMatches(e byte, c byte) bool {
	var in bool
	switch e {
	case 'd', 'D':
		in = c >= '0' && c <= '9'
	case 'w', 'W':
		in = (c >= '0' && c <= '9') || (c >= 'a' && c <= 'z') || (c >= 'A' && c <= 'Z') || c == '_'
	case 's', 'S':
		in = c == ' ' || c == '\t' || c == '\n' || c == '\f' || c == '\r'
	}
	if e >= 'A' && e <= 'Z' {
		return !in
	}

	return in
}

func lower(c byte) byte {
	if c >= 'A' && c <= 'Z' {
		return c + 32
	}

	return c
}

// ends returns the set of positions at which p can stop when it starts matching s at position i
// (a position-set evaluation with memoisation: polynomial even for nested quantifiers such as
// (.*)*, on which a backtracking matcher takes exponential time).
func (p *Pat) ends(s string, i int, fold bool, memo map[*Pat]map[int][]bool) []bool {
	if m, ok := memo[p]; ok {
		if r, ok := m[i]; ok {
			return r
		}
	} else {
		memo[p] = map[int][]bool{}
	}
	out := make([]bool, len(s)+1)
	eq := func(a, b byte) bool {
		if fold {
			return lower(a) == lower(b)
		}

		return a == b
	}
	switch p.Op {
	case "lit":
		if i < len(s) && eq(s[i], p.Lit[0]) {
			out[i+1] = true
		}
	case "class":
		if i < len(s) {
			for j := 0; j < len(p.Lit); j++ {
				if eq(p.Lit[j], s[i]) {
					out[i+1] = true
				}
			}
		}
	case "nclass":
		if i < len(s) {
			in := false
			for j := 0; j < len(p.Lit); j++ {
				if eq(p.Lit[j], s[i]) {
					in = true
				}
			}
			if !in {
				out[i+1] = true
			}
		}
	case "esc":
		if i < len(s) && escMatches(p.Lit[0], s[i]) {
			out[i+1] = true
		}
	case "dot":
		if i < len(s) && s[i] != '\n' {
			out[i+1] = true
		}
	case "cat":
		cur := make([]bool, len(s)+1)
		cur[i] = true
		for _, sub := range p.Subs {
			next := make([]bool, len(s)+1)
			for pos, ok := range cur {
				if !ok {
					continue
				}
				for e, ok2 := range sub.ends(s, pos, fold, memo) {
					if ok2 {
						next[e] = true
					}
				}
			}
			cur = next
		}
		out = cur
	case "alt":
		for _, sub := range p.Subs {
			for e, ok := range sub.ends(s, i, fold, memo) {
				if ok {
					out[e] = true
				}
			}
		}
	case "group", "anchored":
		out = p.Subs[0].ends(s, i, fold, memo)
	case "opt":
		out[i] = true
		for e, ok := range p.Subs[0].ends(s, i, fold, memo) {
			if ok {
				out[e] = true
			}
		}
	case "star", "plus":
		// closure: positions reachable by one or more iterations
		reach := make([]bool, len(s)+1)
		frontier := []int{i}
		seen := map[int]bool{i: true}
		for len(frontier) > 0 {
			pos := frontier[0]
			frontier = frontier[1:]
			for e, ok := range p.Subs[0].ends(s, pos, fold, memo) {
				if !ok {
					continue
				}
				reach[e] = true
				if !seen[e] {
					seen[e] = true
					frontier = append(frontier, e)
				}
			}
		}
		out = reach
		if p.Op == "star" {
			out[i] = true
		}
	}
	memo[p][i] = out

	return out
}

// Matches reports whether the pattern matches the whole string, ASCII-case-insensitively.  A nil
// pattern (empty account pattern) matches everything.
func (p *Pat) Matches(s string) bool {
	if p == nil {
		return true
	}

	return p.ends(s, 0, true, map[*Pat]map[int][]bool{})[len(s)]
}

// MatchesCase is Matches without case folding (the lister's path patterns are case-sensitive).
func (p *Pat) MatchesCase(s string) bool {
	if p == nil {
		return true
	}

	return p.ends(s, 0, false, map[*Pat]map[int][]bool{})[len(s)]
}

// Sample draws a member of the pattern's language (small repetition counts).
func (p *Pat) Sample(t *rapid.T) string {
	switch p.Op {
	case "lit":
		return p.Lit
	case "class":
		return string(p.Lit[rapid.IntRange(0, len(p.Lit)-1).Draw(t, "cls")])
	case "nclass", "esc":
		var ok []byte
		for _, c := range Alphabet {
			if (&Pat{Op: p.Op, Lit: p.Lit}).Matches(string(c)) {
				ok = append(ok, c)
			}
		}
		if len(ok) == 0 {
			return "_"
		}

		return string(ok[rapid.IntRange(0, len(ok)-1).Draw(t, "ncls")])
	case "dot":
		return string(Alphabet[rapid.IntRange(0, len(Alphabet)-1).Draw(t, "dot")])
	case "cat":
		var sb strings.Builder
		for _, s := range p.Subs {
			sb.WriteString(s.Sample(t))
		}

		return sb.String()
	case "alt":
		return p.Subs[rapid.IntRange(0, len(p.Subs)-1).Draw(t, "alt")].Sample(t)
	case "group", "anchored":
		return p.Subs[0].Sample(t)
	case "star":
		n := rapid.IntRange(0, 2).Draw(t, "rep")
		var sb strings.Builder
		for i := 0; i < n; i++ {
			sb.WriteString(p.Subs[0].Sample(t))
		}

		return sb.String()
	case "plus":
		n := rapid.IntRange(1, 2).Draw(t, "rep")
		var sb strings.Builder
		for i := 0; i < n; i++ {
			sb.WriteString(p.Subs[0].Sample(t))
		}

		return sb.String()
	case "opt":
		if rapid.Bool().Draw(t, "opt") {
			return p.Subs[0].Sample(t)
		}

		return ""
	}

	return ""
}

// LitPat builds the concatenation of literals spelling s.
func LitPat(s string) *Pat {
	if len(s) == 1 {
		return &Pat{Op: "lit", Lit: s}
	}
	p := &Pat{Op: "cat"}
	for i := 0; i < len(s); i++ {
		p.Subs = append(p.Subs, &Pat{Op: "lit", Lit: s[i : i+1]})
	}

	return p
}

// GenPat draws a pattern.  Own anchors are only generated in the unambiguous form ^(...)$.
func GenPat(t *rapid.T, depth int, names []string) *Pat {
	k := rapid.IntRange(0, 99).Draw(t, "pat_kind")
	if depth <= 0 && k >= 40 {
		k %= 40
	}
	switch {
	case k < 22 && len(names) > 0:
		return LitPat(rapid.SampledFrom(names).Draw(t, "name_lit"))
	case k < 30:
		return &Pat{Op: "lit", Lit: string(Alphabet[rapid.IntRange(0, len(Alphabet)-1).Draw(t, "ch")])}
	case k < 34:
		a := Alphabet[rapid.IntRange(0, len(Alphabet)-2).Draw(t, "c1")]
		b := Alphabet[rapid.IntRange(0, len(Alphabet)-2).Draw(t, "c2")]
		if a != b && lower(a) == lower(b) {
			// [Ww] is not generated: Go 1.23's regexp/syntax reads it as the literal W with a
			// fold flag and, when factoring an alternation such as W|Wa|[Ww], merges it into the
			// case-sensitive prefix W, so "w" stops matching (fixed in later Go releases; shown by
			// TestPatAgainstRegexp).  That is a standard-library defect, not Dirk's.
			b = 'a'
		}
		switch rapid.IntRange(0, 3).Draw(t, "class_kind") {
		case 0:
			return &Pat{Op: "nclass", Lit: string([]byte{a, b})}
		case 1:
			return &Pat{Op: "esc", Lit: rapid.SampledFrom([]string{"d", "D", "w", "W", "s", "S"}).Draw(t, "esc")}
		}

		return &Pat{Op: "class", Lit: string([]byte{a, b})}
	case k < 40:
		if rapid.Bool().Draw(t, "dotstar") {
			return &Pat{Op: "star", Subs: []*Pat{{Op: "dot"}}}
		}

		return &Pat{Op: "dot"}
	case k < 62:
		n := rapid.IntRange(2, 3).Draw(t, "alt_n")
		p := &Pat{Op: "alt"}
		for i := 0; i < n; i++ {
			p.Subs = append(p.Subs, GenPat(t, depth-1, names))
		}

		return p
	case k < 78:
		n := rapid.IntRange(2, 3).Draw(t, "cat_n")
		p := &Pat{Op: "cat"}
		for i := 0; i < n; i++ {
			p.Subs = append(p.Subs, GenPat(t, depth-1, names))
		}

		return p
	case k < 84:
		return &Pat{Op: "group", Subs: []*Pat{GenPat(t, depth-1, names)}}
	case k < 94:
		return &Pat{Op: rapid.SampledFrom([]string{"star", "plus", "opt"}).Draw(t, "quant"), Subs: []*Pat{GenPat(t, depth-1, names)}}
	default:
		return &Pat{Op: "group", Subs: []*Pat{GenPat(t, depth-1, names)}}
	}
}

// GenTopPat draws a whole pattern; the user's own anchors are generated only around the whole
// pattern, ^(...)$, where their meaning is unambiguous (DESIGN C07).
func GenTopPat(t *rapid.T, depth int, names []string) *Pat {
	p := GenPat(t, depth, names)
	if rapid.IntRange(0, 11).Draw(t, "own_anchors") == 0 {
		return &Pat{Op: "anchored", Subs: []*Pat{p}}
	}

	return p
}

// Mutate derives a near miss from a name.
func Mutate(t *rapid.T, s string) string {
	c := string(Alphabet[rapid.IntRange(0, len(Alphabet)-1).Draw(t, "mch")])
	switch rapid.IntRange(0, 5).Draw(t, "mut") {
	case 0:
		return s + c
	case 1:
		return c + s
	case 2:
		b := []byte(s)
		for i := range b {
			if b[i] >= 'a' && b[i] <= 'z' {
				b[i] -= 32
			} else if b[i] >= 'A' && b[i] <= 'Z' {
				b[i] += 32
			}
		}

		return string(b)
	case 3:
		if len(s) > 1 {
			return s[:len(s)-1]
		}

		return s + c
	case 4:
		if len(s) > 1 {
			return s[1:]
		}

		return c + s
	default:
		return s
	}
}

// ---------------------------------------------------------------------------------------------
// Permission reference model

// Operations are the nine operation names of Dirk.
var Operations = []string{"Sign", "Sign beacon attestation", "Sign beacon proposal", "Access account", "Create account", "Lock wallet", "Unlock wallet", "Lock account", "Unlock account"}

// PermEntry is one ordered permission entry of a client.
type PermEntry struct {
	Wallet  *Pat     `json:"wallet"`
	Account *Pat     `json:"account,omitempty"` // nil = all accounts
	Ops     []string `json:"ops"`
}

// Path prints the entry's path for Dirk's configuration.
func (e *PermEntry) Path() string {
	if e.Account == nil {
		return e.Wallet.String()
	}

	return e.Wallet.String() + "/" + e.Account.String()
}

// PermConfig is the whole permission configuration: client -> ordered entries.
type PermConfig struct {
	Clients map[string][]*PermEntry `json:"clients"`
}

// ForDirk converts the configuration to Dirk's form.
func (c *PermConfig) ForDirk() map[string][]*checker.Permissions {
	out := map[string][]*checker.Permissions{}
	for client, entries := range c.Clients {
		for _, e := range entries {
			out[client] = append(out[client], &checker.Permissions{Path: e.Path(), Operations: e.Ops})
		}
	}

	return out
}

// Allowed is the reference evaluator of the statement of C07: scan the client's entries in order;
// within each entry whose wallet and account patterns match the whole names, scan its operations in
// order; the first of {None, ~op} denies, the first of {All, op} allows; nothing bears => deny.
func (c *PermConfig) Allowed(client string, wallet string, account string, op string) bool {
	if client == "" || wallet == "" {
		return false
	}
	entries, ok := c.Clients[client]
	if !ok {
		return false
	}
	for _, e := range entries {
		if !e.Wallet.Matches(wallet) || !e.Account.Matches(account) {
			continue
		}
		for _, item := range e.Ops {
			if strings.EqualFold(item, "None") || strings.EqualFold(item, "~"+op) {
				return false
			}
			if strings.EqualFold(item, "All") || strings.EqualFold(item, op) {
				return true
			}
		}
	}

	return false
}

// caseVariant draws an ASCII case variant of an operation item.
func caseVariant(t *rapid.T, s string) string {
	switch rapid.IntRange(0, 5).Draw(t, "case") {
	case 0:
		return strings.ToUpper(s)
	case 1:
		return strings.ToLower(s)
	}

	return s
}

// GenOps draws an ordered operation list of 1-4 items from {All, None, op, ~op}.
func GenOps(t *rapid.T, focus []string) []string {
	n := rapid.IntRange(1, 4).Draw(t, "nops")
	var out []string
	for i := 0; i < n; i++ {
		k := rapid.IntRange(0, 99).Draw(t, "opkind")
		pool := Operations
		if len(focus) > 0 && rapid.Bool().Draw(t, "focus") {
			pool = focus
		}
		switch {
		case k < 14:
			out = append(out, caseVariant(t, "All"))
		case k < 24:
			out = append(out, caseVariant(t, "None"))
		case k < 64:
			out = append(out, caseVariant(t, rapid.SampledFrom(pool).Draw(t, "op")))
		case k < 94:
			out = append(out, "~"+caseVariant(t, rapid.SampledFrom(pool).Draw(t, "nop")))
		default:
			out = append(out, "Frobnicate")
		}
	}

	return out
}

// GenPermConfig draws a configuration for the given clients over patterns built around the names.
func GenPermConfig(t *rapid.T, clients []string, wallets []string, accounts []string, focus []string) *PermConfig {
	c := &PermConfig{Clients: map[string][]*PermEntry{}}
	for _, cl := range clients {
		n := rapid.IntRange(1, 5).Draw(t, "nentries")
		for i := 0; i < n; i++ {
			e := &PermEntry{Wallet: GenTopPat(t, 2, wallets), Ops: GenOps(t, focus)}
			if prev := c.Clients[cl]; len(prev) > 0 && rapid.IntRange(0, 9).Draw(t, "reuse_wallet") < 3 {
				// several entries for one wallet expression (with different account patterns) are
				// what real configurations look like
				e.Wallet = prev[rapid.IntRange(0, len(prev)-1).Draw(t, "reuse_from")].Wallet
			}
			if rapid.IntRange(0, 9).Draw(t, "has_account") < 7 {
				e.Account = GenTopPat(t, 2, accounts)
			}
			c.Clients[cl] = append(c.Clients[cl], e)
		}
	}

	return c
}
