// Package vkit is the shared test-bed of the verification harness: it assembles real Dirk
// services (no mocks) around an in-memory wallet store and a real badger rules store.
package vkit

import (
	"context"
	"crypto/sha256"
	"fmt"
	"os"
	"sync"
	"sync/atomic"
	"testing"

	"github.com/attestantio/dirk/rules"
	standardrules "github.com/attestantio/dirk/rules/standard"
	"github.com/attestantio/dirk/services/accountmanager"
	standardaccountmanager "github.com/attestantio/dirk/services/accountmanager/standard"
	accountmanagerhandler "github.com/attestantio/dirk/services/api/grpc/handlers/accountmanager"
	listerhandler "github.com/attestantio/dirk/services/api/grpc/handlers/lister"
	signerhandler "github.com/attestantio/dirk/services/api/grpc/handlers/signer"
	walletmanagerhandler "github.com/attestantio/dirk/services/api/grpc/handlers/walletmanager"
	"github.com/attestantio/dirk/services/api/grpc/interceptors"
	"github.com/attestantio/dirk/services/checker"
	staticchecker "github.com/attestantio/dirk/services/checker/static"
	"github.com/attestantio/dirk/services/fetcher"
	memfetcher "github.com/attestantio/dirk/services/fetcher/mem"
	"github.com/attestantio/dirk/services/lister"
	standardlister "github.com/attestantio/dirk/services/lister/standard"
	"github.com/attestantio/dirk/services/locker"
	syncmaplocker "github.com/attestantio/dirk/services/locker/syncmap"
	"github.com/attestantio/dirk/services/process"
	mockprocess "github.com/attestantio/dirk/services/process/mock"
	"github.com/attestantio/dirk/services/ruler"
	goruler "github.com/attestantio/dirk/services/ruler/golang"
	"github.com/attestantio/dirk/services/signer"
	standardsigner "github.com/attestantio/dirk/services/signer/standard"
	"github.com/attestantio/dirk/services/unlocker"
	localunlocker "github.com/attestantio/dirk/services/unlocker/local"
	"github.com/attestantio/dirk/services/walletmanager"
	standardwalletmanager "github.com/attestantio/dirk/services/walletmanager/standard"
	"github.com/rs/zerolog"
	e2types "github.com/wealdtech/go-eth2-types/v2"
	distributed "github.com/wealdtech/go-eth2-wallet-distributed"
	keystorev4 "github.com/wealdtech/go-eth2-wallet-encryptor-keystorev4"
	nd "github.com/wealdtech/go-eth2-wallet-nd/v2"
	scratch "github.com/wealdtech/go-eth2-wallet-store-scratch"
	e2wtypes "github.com/wealdtech/go-eth2-wallet-types/v2"
)

var initOnce sync.Once

// Init initialises BLS and silences logging.  Safe to call many times.
func Init() {
	initOnce.Do(func() {
		if err := e2types.InitBLS(); err != nil {
			panic(err)
		}
		zerolog.SetGlobalLevel(zerolog.Disabled)
	})
}

// Encryptor returns a keystorev4 encryptor with a cheap KDF (cost 2^4); the cost is recorded in
// each keystore so unlocking is cheap too.
func Encryptor() e2wtypes.Encryptor {
	return keystorev4.New(keystorev4.WithCost(&testing.T{}, 4))
}

// PrivKey returns the i-th deterministic BLS private key of the harness key pool.
func PrivKey(i int) []byte {
	h := sha256.Sum256([]byte(fmt.Sprintf("verif-harness-key-%d", i)))
	h[0] &= 0x3f // below the group order

	return h[:]
}

// AccountSpec describes one account to create in a wallet.
type AccountSpec struct {
	Name       string
	KeyIndex   int
	Passphrase string // "" means DefaultPassphrase
}

// WalletSpec describes one wallet.
type WalletSpec struct {
	Name        string
	Distributed bool
	Accounts    []AccountSpec
}

// DefaultPassphrase is the account passphrase known to the unlocker.
const DefaultPassphrase = "pass"

// AccountInfo is ground truth about a created account.
type AccountInfo struct {
	Wallet  string
	Name    string
	PubKey  []byte
	PrivKey []byte
}

// Path returns wallet/account.
func (a *AccountInfo) Path() string { return a.Wallet + "/" + a.Name }

// World is an in-memory wallet store populated with wallets and accounts.
type World struct {
	Store    e2wtypes.Store
	Accounts []*AccountInfo
	ByPath   map[string]*AccountInfo
}

// NewWorld creates the wallets and accounts in a scratch store.
func NewWorld(specs []WalletSpec) (*World, error) {
	return NewWorldIn(scratch.New(), specs)
}

// NewWorldIn creates the wallets and accounts in the given store.
func NewWorldIn(store e2wtypes.Store, specs []WalletSpec) (*World, error) {
	Init()
	ctx := context.Background()
	w := &World{Store: store, ByPath: map[string]*AccountInfo{}}
	enc := Encryptor()
	for _, ws := range specs {
		if ws.Distributed {
			if _, err := distributed.CreateWallet(ctx, ws.Name, w.Store, enc); err != nil {
				return nil, fmt.Errorf("create distributed wallet %q: %w", ws.Name, err)
			}

			continue
		}
		wallet, err := nd.CreateWallet(ctx, ws.Name, w.Store, enc)
		if err != nil {
			return nil, fmt.Errorf("create wallet %q: %w", ws.Name, err)
		}
		if err := wallet.(e2wtypes.WalletLocker).Unlock(ctx, nil); err != nil {
			return nil, err
		}
		for _, as := range ws.Accounts {
			pass := as.Passphrase
			if pass == "" {
				pass = DefaultPassphrase
			}
			priv := PrivKey(as.KeyIndex)
			acc, err := wallet.(e2wtypes.WalletAccountImporter).ImportAccount(ctx, as.Name, priv, []byte(pass))
			if err != nil {
				return nil, fmt.Errorf("import %q/%q: %w", ws.Name, as.Name, err)
			}
			info := &AccountInfo{Wallet: ws.Name, Name: as.Name, PubKey: acc.PublicKey().Marshal(), PrivKey: priv}
			w.Accounts = append(w.Accounts, info)
			w.ByPath[info.Path()] = info
		}
		if err := wallet.(e2wtypes.WalletLocker).Lock(ctx); err != nil {
			return nil, err
		}
	}

	return w, nil
}

// SimpleWorld is one nd wallet "Wallet 1" with n accounts "Account 0".."Account n-1".
func SimpleWorld(n int) (*World, error) {
	ws := WalletSpec{Name: "Wallet 1"}
	for i := 0; i < n; i++ {
		ws.Accounts = append(ws.Accounts, AccountSpec{Name: fmt.Sprintf("Account %d", i), KeyIndex: i})
	}

	return NewWorld([]WalletSpec{ws})
}

// StackOpts configures a Stack.  Wrap* functions let a check interpose recording or
// fault-injecting wrappers around the real services.
type StackOpts struct {
	World        *World
	Dir          string // rules storage directory ("" = fresh temp dir, removed on Close)
	Permissions  map[string][]*checker.Permissions
	AdminIPs     []string
	Passphrases  []string // account passphrases known to the unlocker (nil = {DefaultPassphrase})
	WrapFetcher  func(fetcher.Service) fetcher.Service
	WrapChecker  func(checker.Service) checker.Service
	WrapUnlocker func(unlocker.Service) unlocker.Service
	WrapRules    func(rules.Service) rules.Service
	WrapLocker   func(locker.Service) locker.Service
	WrapRuler    func(ruler.Service) ruler.Service
	Process      process.Service // optional, for the account manager
	// SharedFetcher, if set, is used instead of building a new mem fetcher (populating the fetcher
	// deserialises every account; checks with hundreds of accounts share one across cases).
	SharedFetcher *memfetcher.Service
}

// Stack is a signer stack of real services.
type Stack struct {
	Opts     StackOpts
	Dir      string
	ownDir   bool
	cancel   context.CancelFunc
	RawRules *standardrules.Service
	Rules    rules.Service
	Fetcher  fetcher.Service
	MemFetch *memfetcher.Service
	Checker  checker.Service
	Unlocker unlocker.Service
	Locker   locker.Service
	Ruler    ruler.Service
	Signer   signer.Service
	Lister   lister.Service
	AccMgr   accountmanager.Service
	WalMgr   walletmanager.Service

	// BeginGen, if set, is told when a generation is about to be requested (cluster commit steering).
	BeginGen func(account string)

	SignerH *signerhandler.Handler
	ListerH *listerhandler.Handler
	AccMgrH *accountmanagerhandler.Handler
	WalMgrH *walletmanagerhandler.Handler
}

// AllPermissions grants everything on every wallet to the given clients.
func AllPermissions(clients ...string) map[string][]*checker.Permissions {
	m := map[string][]*checker.Permissions{}
	for _, c := range clients {
		m[c] = []*checker.Permissions{{Path: ".*", Operations: []string{"All"}}}
	}

	return m
}

// NewStack builds a stack.
func NewStack(opts StackOpts) (*Stack, error) {
	Init()
	s := &Stack{Opts: opts, Dir: opts.Dir}
	if s.Dir == "" {
		d, err := os.MkdirTemp("", "verif-rules-")
		if err != nil {
			return nil, err
		}
		s.Dir = d
		s.ownDir = true
	}
	if err := s.start(); err != nil {
		s.Close()

		return nil, err
	}

	return s, nil
}

func (s *Stack) start() error {
	ctx, cancel := context.WithCancel(context.Background())
	s.cancel = cancel
	bg := context.Background()
	opts := s.Opts

	passphrases := opts.Passphrases
	if passphrases == nil {
		passphrases = []string{DefaultPassphrase}
	}
	unl, err := localunlocker.New(bg,
		localunlocker.WithWalletPassphrases(passphrases),
		localunlocker.WithAccountPassphrases(passphrases),
	)
	if err != nil {
		return fmt.Errorf("unlocker: %w", err)
	}
	s.Unlocker = unl
	if opts.WrapUnlocker != nil {
		s.Unlocker = opts.WrapUnlocker(unl)
	}

	perms := opts.Permissions
	if perms == nil {
		perms = AllPermissions("client1")
	}
	chk, err := staticchecker.New(bg, staticchecker.WithPermissions(perms))
	if err != nil {
		return fmt.Errorf("checker: %w", err)
	}
	s.Checker = chk
	if opts.WrapChecker != nil {
		s.Checker = opts.WrapChecker(chk)
	}

	mf := opts.SharedFetcher
	if mf == nil {
		mf, err = NewFetcher(opts.World)
		if err != nil {
			return fmt.Errorf("fetcher: %w", err)
		}
	}
	s.MemFetch = mf
	s.Fetcher = mf
	if opts.WrapFetcher != nil {
		s.Fetcher = opts.WrapFetcher(mf)
	}

	lck, err := syncmaplocker.New(bg)
	if err != nil {
		return fmt.Errorf("locker: %w", err)
	}
	s.Locker = lck
	if opts.WrapLocker != nil {
		s.Locker = opts.WrapLocker(lck)
	}

	// The rules service starts a goroutine that closes the store when its context is cancelled.  The
	// harness closes the store explicitly (StopRules) and cancels the context afterwards, which lets
	// that goroutine finish (its second Close is a no-op) instead of pinning the closed database.
	rl, err := standardrules.New(ctx,
		standardrules.WithStoragePath(s.Dir),
		standardrules.WithAdminIPs(opts.AdminIPs),
	)
	if err != nil {
		return fmt.Errorf("rules: %w", err)
	}
	s.RawRules = rl
	s.Rules = rl
	if opts.WrapRules != nil {
		s.Rules = opts.WrapRules(rl)
	}

	rlr, err := goruler.New(bg, goruler.WithLocker(s.Locker), goruler.WithRules(s.Rules))
	if err != nil {
		return fmt.Errorf("ruler: %w", err)
	}
	s.Ruler = rlr
	if opts.WrapRuler != nil {
		s.Ruler = opts.WrapRuler(rlr)
	}

	sg, err := standardsigner.New(bg,
		standardsigner.WithUnlocker(s.Unlocker),
		standardsigner.WithChecker(s.Checker),
		standardsigner.WithFetcher(s.Fetcher),
		standardsigner.WithRuler(s.Ruler),
	)
	if err != nil {
		return fmt.Errorf("signer: %w", err)
	}
	s.Signer = sg

	ls, err := standardlister.New(bg,
		standardlister.WithFetcher(s.Fetcher),
		standardlister.WithChecker(s.Checker),
		standardlister.WithRuler(s.Ruler),
	)
	if err != nil {
		return fmt.Errorf("lister: %w", err)
	}
	s.Lister = ls

	wm, err := standardwalletmanager.New(bg,
		standardwalletmanager.WithUnlocker(s.Unlocker),
		standardwalletmanager.WithChecker(s.Checker),
		standardwalletmanager.WithFetcher(s.Fetcher),
		standardwalletmanager.WithRuler(s.Ruler),
	)
	if err != nil {
		return fmt.Errorf("walletmanager: %w", err)
	}
	s.WalMgr = wm

	if s.SignerH, err = signerhandler.New(bg, signerhandler.WithSigner(s.Signer)); err != nil {
		return fmt.Errorf("signer handler: %w", err)
	}
	if s.ListerH, err = listerhandler.New(bg, listerhandler.WithLister(s.Lister)); err != nil {
		return fmt.Errorf("lister handler: %w", err)
	}

	proc := opts.Process
	if proc == nil {
		// Stacks that do not exercise key generation get the repository's mock process service: the
		// account and wallet managers and their handlers insist on one but lock/unlock never call it.
		mp, err := mockprocess.New()
		if err != nil {
			return err
		}
		proc = mp
	}

	return s.SetProcess(proc)
}

// SetProcess installs the process service and builds the services that need it.
func (s *Stack) SetProcess(p process.Service) error {
	bg := context.Background()
	am, err := standardaccountmanager.New(bg,
		standardaccountmanager.WithUnlocker(s.Unlocker),
		standardaccountmanager.WithChecker(s.Checker),
		standardaccountmanager.WithFetcher(s.Fetcher),
		standardaccountmanager.WithRuler(s.Ruler),
		standardaccountmanager.WithProcess(p),
	)
	if err != nil {
		return fmt.Errorf("accountmanager: %w", err)
	}
	s.AccMgr = am
	if s.AccMgrH, err = accountmanagerhandler.New(bg, accountmanagerhandler.WithAccountManager(am), accountmanagerhandler.WithProcess(p)); err != nil {
		return fmt.Errorf("accountmanager handler: %w", err)
	}
	if s.WalMgrH, err = walletmanagerhandler.New(bg, walletmanagerhandler.WithWalletManager(s.WalMgr), walletmanagerhandler.WithProcess(p)); err != nil {
		return fmt.Errorf("walletmanager handler: %w", err)
	}

	return nil
}

// NewFetcher builds a mem fetcher over the world's store.
func NewFetcher(w *World) (*memfetcher.Service, error) {
	return memfetcher.New(context.Background(),
		memfetcher.WithStores([]e2wtypes.Store{w.Store}),
		memfetcher.WithEncryptor(Encryptor()),
	)
}

// StopRules closes the rules store (clean shutdown of the storage).
func (s *Stack) StopRules() error {
	if s.RawRules == nil {
		return nil
	}
	err := s.RawRules.Close(context.Background())
	s.RawRules = nil
	if s.cancel != nil {
		s.cancel()
		s.cancel = nil
	}

	return err
}

// Restart performs a clean shutdown and rebuilds every service on the same storage directory
// and the same wallet store (accounts come back locked, as after a real restart).
func (s *Stack) Restart() error {
	if err := s.StopRules(); err != nil {
		return fmt.Errorf("close rules: %w", err)
	}
	if s.cancel != nil {
		s.cancel()
	}

	return s.start()
}

// Close shuts the stack down and removes its storage directory if the stack created it.
func (s *Stack) Close() {
	_ = s.StopRules()
	if s.cancel != nil {
		s.cancel()
	}
	if s.ownDir {
		_ = os.RemoveAll(s.Dir)
	}
}

// Ctx returns a context as the gRPC interceptors would build it for the given authenticated
// client name and source address ("" = absent).
func Ctx(client string, ip string) context.Context {
	ctx := context.Background()
	if baseCtxN.Load() > 0 {
		if b, ok := baseCtx.Load(GoID()); ok {
			ctx = b.(context.Context)
		}
	}
	if client != "" {
		ctx = context.WithValue(ctx, &interceptors.ClientName{}, client)
	}
	if ip != "" {
		ctx = context.WithValue(ctx, &interceptors.ExternalIP{}, ip)
	}

	return ctx
}

var (
	baseCtx  sync.Map // goroutine id -> context.Context
	baseCtxN atomic.Int64
)

// SetBaseCtx makes every context that Ctx builds on the calling goroutine derive from base (for
// example a cancellable context, as gRPC hands to a handler whose client may go away); the returned
// function removes the registration.
func SetBaseCtx(base context.Context) func() {
	id := GoID()
	baseCtx.Store(id, base)
	baseCtxN.Add(1)

	return func() {
		baseCtx.Delete(id)
		baseCtxN.Add(-1)
	}
}

// Creds builds service-level credentials.
func Creds(client string, ip string) *checker.Credentials {
	return &checker.Credentials{Client: client, IP: ip, RequestID: "verif"}
}

func (s *Stack) netBegin(account string) {
	if s.BeginGen != nil {
		s.BeginGen(account)
	}
}
