package vkit

import (
	"crypto/sha256"
	"encoding/binary"
	"fmt"

	e2types "github.com/wealdtech/go-eth2-types/v2"
)

// ---------------------------------------------------------------------------------------------
// Independent SSZ signing roots (own merkleisation over crypto/sha256; no fastssz, no
// go-eth2-client).

func hash2(a, b [32]byte) [32]byte {
	var buf [64]byte
	copy(buf[:32], a[:])
	copy(buf[32:], b[:])

	return sha256.Sum256(buf[:])
}

func u64leaf(v uint64) [32]byte {
	var l [32]byte
	binary.LittleEndian.PutUint64(l[:8], v)

	return l
}

func rootleaf(b []byte) [32]byte {
	var l [32]byte
	copy(l[:], b)

	return l
}

// merkle8 merkleises up to 8 leaves (padded with zero leaves).
func merkle8(leaves ...[32]byte) [32]byte {
	var l [8][32]byte
	copy(l[:], leaves)
	a := hash2(l[0], l[1])
	b := hash2(l[2], l[3])
	c := hash2(l[4], l[5])
	d := hash2(l[6], l[7])

	return hash2(hash2(a, b), hash2(c, d))
}

// Att is an attestation request's data.
type Att struct {
	Slot      uint64 `json:"slot"`
	Index     uint64 `json:"index"`
	BlockRoot []byte `json:"block_root"`
	SrcEpoch  uint64 `json:"src"`
	SrcRoot   []byte `json:"src_root"`
	TgtEpoch  uint64 `json:"tgt"`
	TgtRoot   []byte `json:"tgt_root"`
	Domain    []byte `json:"domain"`
}

// Prop is a proposal request's data.
type Prop struct {
	Slot          uint64 `json:"slot"`
	ProposerIndex uint64 `json:"proposer"`
	ParentRoot    []byte `json:"parent_root"`
	StateRoot     []byte `json:"state_root"`
	BodyRoot      []byte `json:"body_root"`
	Domain        []byte `json:"domain"`
}

// AttDataRoot is hash_tree_root(AttestationData).
func AttDataRoot(a *Att) [32]byte {
	src := hash2(u64leaf(a.SrcEpoch), rootleaf(a.SrcRoot))
	tgt := hash2(u64leaf(a.TgtEpoch), rootleaf(a.TgtRoot))

	return merkle8(u64leaf(a.Slot), u64leaf(a.Index), rootleaf(a.BlockRoot), src, tgt)
}

// PropDataRoot is hash_tree_root(BeaconBlockHeader).
func PropDataRoot(p *Prop) [32]byte {
	return merkle8(u64leaf(p.Slot), u64leaf(p.ProposerIndex), rootleaf(p.ParentRoot), rootleaf(p.StateRoot), rootleaf(p.BodyRoot))
}

// SigningRoot is hash_tree_root(SigningData{root, domain}).
func SigningRoot(root [32]byte, domain []byte) [32]byte {
	return hash2(root, rootleaf(domain))
}

// VerifySig verifies a BLS signature over a 32-byte signing root under a public key.
func VerifySig(pubKey []byte, signingRoot [32]byte, sig []byte) error {
	Init()
	pk, err := e2types.BLSPublicKeyFromBytes(pubKey)
	if err != nil {
		return fmt.Errorf("bad public key: %w", err)
	}
	s, err := e2types.BLSSignatureFromBytes(sig)
	if err != nil {
		return fmt.Errorf("bad signature encoding (%d bytes): %w", len(sig), err)
	}
	if !s.Verify(signingRoot[:], pk) {
		return fmt.Errorf("signature does not verify")
	}

	return nil
}

// ---------------------------------------------------------------------------------------------
// Slashing history oracle: knows nothing about watermarks; purely pairwise conditions over the
// history of released signatures, in unsigned 64-bit arithmetic.

type relAtt struct {
	src, tgt uint64
	data     [32]byte
}

type relProp struct {
	slot uint64
	data [32]byte
}

// History is the per-key history of released signatures.
type History struct {
	atts  map[string][]relAtt
	props map[string][]relProp
}

// NewHistory creates an empty history.
func NewHistory() *History {
	return &History{atts: map[string][]relAtt{}, props: map[string][]relProp{}}
}

// AttConflict reports whether the attestation would be slashable against the history of key.
func (h *History) AttConflict(key string, a *Att) (string, bool) {
	d := AttDataRoot(a)
	for _, r := range h.atts[key] {
		if r.tgt == a.TgtEpoch && r.data != d {
			return fmt.Sprintf("double vote: target %d signed before with different data", a.TgtEpoch), true
		}
		if r.src < a.SrcEpoch && a.TgtEpoch < r.tgt {
			return fmt.Sprintf("surrounded: earlier (%d,%d) surrounds new (%d,%d)", r.src, r.tgt, a.SrcEpoch, a.TgtEpoch), true
		}
		if a.SrcEpoch < r.src && r.tgt < a.TgtEpoch {
			return fmt.Sprintf("surrounds: new (%d,%d) surrounds earlier (%d,%d)", a.SrcEpoch, a.TgtEpoch, r.src, r.tgt), true
		}
	}

	return "", false
}

// AddAtt records a released attestation signature; it returns a description of the slashing
// condition if the release is slashable against an earlier release.
func (h *History) AddAtt(key string, a *Att) (string, bool) {
	why, bad := h.AttConflict(key, a)
	h.atts[key] = append(h.atts[key], relAtt{src: a.SrcEpoch, tgt: a.TgtEpoch, data: AttDataRoot(a)})

	return why, bad
}

// PropConflict reports whether a proposal at this slot violates "slots strictly increasing"
// (which implies no two different headers for one slot).
func (h *History) PropConflict(key string, p *Prop) (string, bool) {
	for _, r := range h.props[key] {
		if p.Slot <= r.slot {
			return fmt.Sprintf("slot %d released after slot %d", p.Slot, r.slot), true
		}
	}

	return "", false
}

// AddProp records a released proposal signature.
func (h *History) AddProp(key string, p *Prop) (string, bool) {
	why, bad := h.PropConflict(key, p)
	h.props[key] = append(h.props[key], relProp{slot: p.Slot, data: PropDataRoot(p)})

	return why, bad
}

// MaxTarget returns the highest released target for key.
func (h *History) MaxTarget(key string) (uint64, bool) {
	var m uint64
	ok := false
	for _, r := range h.atts[key] {
		if !ok || r.tgt > m {
			m = r.tgt
		}
		ok = true
	}

	return m, ok
}

// MaxSource returns the highest released source for key.
func (h *History) MaxSource(key string) (uint64, bool) {
	var m uint64
	ok := false
	for _, r := range h.atts[key] {
		if !ok || r.src > m {
			m = r.src
		}
		ok = true
	}

	return m, ok
}

// MaxSlot returns the highest released slot for key.
func (h *History) MaxSlot(key string) (uint64, bool) {
	var m uint64
	ok := false
	for _, r := range h.props[key] {
		if !ok || r.slot > m {
			m = r.slot
		}
		ok = true
	}

	return m, ok
}

// NumAtts returns the number of released attestations for the key.
func (h *History) NumAtts(key string) int { return len(h.atts[key]) }

// NumProps returns the number of released proposals for the key.
func (h *History) NumProps(key string) int { return len(h.props[key]) }

// ---------------------------------------------------------------------------------------------
// Watermark model (only for properties whose statement is about the rule itself).

// WM is the per-key watermark state; -1 = none.
type WM struct {
	HasAtt bool
	Src    uint64
	Tgt    uint64
	HasPro bool
	Slot   uint64
}

// Model is the watermark reference model.
type Model struct {
	Keys map[string]*WM
}

// NewModel creates an empty model.
func NewModel() *Model { return &Model{Keys: map[string]*WM{}} }

func (m *Model) wm(key string) *WM {
	w, ok := m.Keys[key]
	if !ok {
		w = &WM{}
		m.Keys[key] = w
	}

	return w
}

// Clone deep-copies the model.
func (m *Model) Clone() *Model {
	c := NewModel()
	for k, v := range m.Keys {
		cp := *v
		c.Keys[k] = &cp
	}

	return c
}

var (
	domAttester = []byte{1, 0, 0, 0}
	domProposer = []byte{0, 0, 0, 0}
)

const maxInt64 = uint64(1<<63 - 1)

// AttVerdict says whether the model approves the attestation (without applying it).
func (m *Model) AttVerdict(key string, a *Att) bool {
	if len(a.Domain) < 4 || string(a.Domain[:4]) != string(domAttester) {
		return false
	}
	if a.SrcEpoch > maxInt64 || a.TgtEpoch > maxInt64 {
		return false
	}
	if !(a.TgtEpoch > a.SrcEpoch || (a.TgtEpoch == 0 && a.SrcEpoch == 0)) {
		return false
	}
	w := m.wm(key)
	if w.HasAtt {
		if a.TgtEpoch <= w.Tgt || a.SrcEpoch < w.Src {
			return false
		}
	}

	return true
}

// ApplyAtt applies the attestation if approved and returns the verdict.
func (m *Model) ApplyAtt(key string, a *Att) bool {
	if !m.AttVerdict(key, a) {
		return false
	}
	w := m.wm(key)
	w.HasAtt, w.Src, w.Tgt = true, a.SrcEpoch, a.TgtEpoch

	return true
}

// PropVerdict says whether the model approves the proposal.
func (m *Model) PropVerdict(key string, p *Prop) bool {
	if len(p.Domain) < 4 || string(p.Domain[:4]) != string(domProposer) {
		return false
	}
	if p.Slot > maxInt64 {
		return false
	}
	w := m.wm(key)
	if w.HasPro && p.Slot <= w.Slot {
		return false
	}

	return true
}

// ApplyProp applies the proposal if approved and returns the verdict.
func (m *Model) ApplyProp(key string, p *Prop) bool {
	if !m.PropVerdict(key, p) {
		return false
	}
	w := m.wm(key)
	w.HasPro, w.Slot = true, p.Slot

	return true
}
