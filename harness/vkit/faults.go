package vkit

import (
	"context"
	"errors"
	"fmt"
	"sync"

	"github.com/attestantio/dirk/rules"
	"github.com/attestantio/dirk/services/checker"
	"github.com/attestantio/dirk/services/fetcher"
	"github.com/attestantio/dirk/services/ruler"
	"github.com/attestantio/dirk/services/unlocker"
	e2types "github.com/wealdtech/go-eth2-types/v2"
	e2wtypes "github.com/wealdtech/go-eth2-wallet-types/v2"
)

// FaultPlan is a set of faults keyed by (site, hex public key or "*").  Wrappers consult it and log
// every fault that actually fired.
type FaultPlan struct {
	mu    sync.Mutex
	Sites map[string]map[string]string // site -> key -> mode
	Fired []string                     // "site key mode"
	// Disabled suspends every planned fault (used while a check prepares state).
	Disabled bool
	// OnSign, if set, is called for every AccountSigner.Sign invocation before signing.
	OnSign func(pubKey []byte, root []byte)
	// AfterSign, if set, is called after every AccountSigner.Sign invocation.
	AfterSign func(pubKey []byte, root []byte)
}

// NewFaultPlan creates an empty plan.
func NewFaultPlan() *FaultPlan { return &FaultPlan{Sites: map[string]map[string]string{}} }

// Add plans a fault.
func (p *FaultPlan) Add(site string, key string, mode string) {
	if p.Sites[site] == nil {
		p.Sites[site] = map[string]string{}
	}
	p.Sites[site][key] = mode
}

// Hit reports whether a fault is planned at the site for the key and records that it fired.
func (p *FaultPlan) Hit(site string, key string) (string, bool) {
	if p == nil {
		return "", false
	}
	p.mu.Lock()
	defer p.mu.Unlock()
	if p.Disabled {
		return "", false
	}
	m := p.Sites[site]
	if m == nil {
		return "", false
	}
	mode, ok := m[key]
	if !ok {
		mode, ok = m["*"]
		if !ok {
			return "", false
		}
	}
	p.Fired = append(p.Fired, site+" "+key+" "+mode)

	return mode, true
}

// Mark records a fault applied by the interpreter itself.
func (p *FaultPlan) Mark(s string) {
	p.mu.Lock()
	p.Fired = append(p.Fired, s)
	p.mu.Unlock()
}

// FiredFor reports whether any fault fired for the key (or request-wide, key "*").
func (p *FaultPlan) FiredFor(key string) []string {
	p.mu.Lock()
	defer p.mu.Unlock()
	var out []string
	for _, f := range p.Fired {
		var s, k, m string
		fmt.Sscanf(f, "%s %s %s", &s, &k, &m)
		if k == key || k == "*" {
			out = append(out, f)
		}
	}

	return out
}

// AllFired returns every fired fault.
func (p *FaultPlan) AllFired() []string {
	p.mu.Lock()
	defer p.mu.Unlock()

	return append([]string(nil), p.Fired...)
}

var errInjected = errors.New("verif: injected fault")

// ---- fetcher -----------------------------------------------------------------------------------

// FaultFetcher wraps a fetcher: planned lookup failures, and every returned account is wrapped so
// that IsUnlocked and Sign can be intercepted.
type FaultFetcher struct {
	fetcher.Service
	Plan *FaultPlan
}

func (f *FaultFetcher) wrap(w e2wtypes.Wallet, a e2wtypes.Account, err error) (e2wtypes.Wallet, e2wtypes.Account, error) {
	if err != nil || a == nil {
		return w, a, err
	}
	key := fmt.Sprintf("%x", a.PublicKey().Marshal())
	if _, hit := f.Plan.Hit("fetch", key); hit {
		return nil, nil, errInjected
	}
	if _, planned := f.Plan.Sites["non-signer"][key]; planned {
		f.Plan.Hit("non-signer", key)

		return w, &NonSignerAccount{Account: a}, nil
	}

	return w, &AccountWrapper{Account: a, Plan: f.Plan}, nil
}

// FetchAccount implements fetcher.Service.
func (f *FaultFetcher) FetchAccount(ctx context.Context, path string) (e2wtypes.Wallet, e2wtypes.Account, error) {
	return f.wrap(f.Service.FetchAccount(ctx, path))
}

// FetchAccountByKey implements fetcher.Service.
func (f *FaultFetcher) FetchAccountByKey(ctx context.Context, pubKey []byte) (e2wtypes.Wallet, e2wtypes.Account, error) {
	return f.wrap(f.Service.FetchAccountByKey(ctx, pubKey))
}

// AccountWrapper forwards to a real account and intercepts IsUnlocked and Sign.
type AccountWrapper struct {
	e2wtypes.Account
	Plan *FaultPlan
}

// Lock implements AccountLocker.
func (a *AccountWrapper) Lock(ctx context.Context) error {
	return a.Account.(e2wtypes.AccountLocker).Lock(ctx)
}

// Unlock implements AccountLocker.
func (a *AccountWrapper) Unlock(ctx context.Context, passphrase []byte) error {
	return a.Account.(e2wtypes.AccountLocker).Unlock(ctx, passphrase)
}

// IsUnlocked implements AccountLocker.
func (a *AccountWrapper) IsUnlocked(ctx context.Context) (bool, error) {
	if _, hit := a.Plan.Hit("isunlocked-err", fmt.Sprintf("%x", a.Account.PublicKey().Marshal())); hit {
		return false, errInjected
	}

	return a.Account.(e2wtypes.AccountLocker).IsUnlocked(ctx)
}

// Sign implements AccountSigner.
func (a *AccountWrapper) Sign(ctx context.Context, data []byte) (e2types.Signature, error) {
	pk := a.Account.PublicKey().Marshal()
	if a.Plan != nil && a.Plan.OnSign != nil {
		a.Plan.OnSign(pk, data)
	}
	if _, hit := a.Plan.Hit("sign-err", fmt.Sprintf("%x", pk)); hit {
		return nil, errInjected
	}

	sig, err := a.Account.(e2wtypes.AccountSigner).Sign(ctx, data)
	if a.Plan != nil && a.Plan.AfterSign != nil {
		a.Plan.AfterSign(pk, data)
	}

	return sig, err
}

// NonSignerAccount is an account that can be locked and unlocked but cannot sign.
type NonSignerAccount struct {
	e2wtypes.Account
}

// Lock implements AccountLocker.
func (a *NonSignerAccount) Lock(ctx context.Context) error {
	return a.Account.(e2wtypes.AccountLocker).Lock(ctx)
}

// Unlock implements AccountLocker.
func (a *NonSignerAccount) Unlock(ctx context.Context, passphrase []byte) error {
	return a.Account.(e2wtypes.AccountLocker).Unlock(ctx, passphrase)
}

// IsUnlocked implements AccountLocker.
func (a *NonSignerAccount) IsUnlocked(ctx context.Context) (bool, error) {
	return a.Account.(e2wtypes.AccountLocker).IsUnlocked(ctx)
}

// ---- checker -----------------------------------------------------------------------------------

// FaultChecker denies planned accounts (site "check", key = wallet/account path).
type FaultChecker struct {
	checker.Service
	Plan *FaultPlan
}

// Check implements checker.Service.
func (c *FaultChecker) Check(ctx context.Context, credentials *checker.Credentials, account string, operation string) bool {
	if _, hit := c.Plan.Hit("check", account); hit {
		return false
	}

	return c.Service.Check(ctx, credentials, account, operation)
}

// ---- unlocker ----------------------------------------------------------------------------------

// FaultUnlocker fails planned unlock attempts (sites "unlock-err", "unlock-false").
type FaultUnlocker struct {
	unlocker.Service
	Plan *FaultPlan
}

// UnlockAccount implements unlocker.Service.
func (u *FaultUnlocker) UnlockAccount(ctx context.Context, wallet e2wtypes.Wallet, account e2wtypes.Account) (bool, error) {
	key := fmt.Sprintf("%x", account.PublicKey().Marshal())
	if _, hit := u.Plan.Hit("unlock-err", key); hit {
		return false, errInjected
	}
	if _, hit := u.Plan.Hit("unlock-false", key); hit {
		return false, nil
	}

	return u.Service.UnlockAccount(ctx, wallet, account)
}

// ---- rules -------------------------------------------------------------------------------------

// FaultRules overrides rule verdicts (site "rules", key = hex pubkey, mode FAILED|UNKNOWN|DENIED), and
// for the batch call the whole list (site "rules-list", key "*", mode "short:<n>" | "all-unknown").
type FaultRules struct {
	rules.Service
	Plan *FaultPlan
}

func modeResult(mode string) rules.Result {
	switch mode {
	case "FAILED":
		return rules.FAILED
	case "UNKNOWN":
		return rules.UNKNOWN
	default:
		return rules.DENIED
	}
}

// OnSign implements rules.Service.
func (r *FaultRules) OnSign(ctx context.Context, metadata *rules.ReqMetadata, req *rules.SignData) rules.Result {
	if mode, hit := r.Plan.Hit("rules", fmt.Sprintf("%x", metadata.PubKey)); hit {
		return modeResult(mode)
	}

	return r.Service.OnSign(ctx, metadata, req)
}

// OnSignBeaconAttestation implements rules.Service.
func (r *FaultRules) OnSignBeaconAttestation(ctx context.Context, metadata *rules.ReqMetadata, req *rules.SignBeaconAttestationData) rules.Result {
	if mode, hit := r.Plan.Hit("rules", fmt.Sprintf("%x", metadata.PubKey)); hit {
		return modeResult(mode)
	}

	return r.Service.OnSignBeaconAttestation(ctx, metadata, req)
}

// OnSignBeaconProposal implements rules.Service.
func (r *FaultRules) OnSignBeaconProposal(ctx context.Context, metadata *rules.ReqMetadata, req *rules.SignBeaconProposalData) rules.Result {
	if mode, hit := r.Plan.Hit("rules", fmt.Sprintf("%x", metadata.PubKey)); hit {
		return modeResult(mode)
	}

	return r.Service.OnSignBeaconProposal(ctx, metadata, req)
}

// OnSignBeaconAttestations implements rules.Service.
func (r *FaultRules) OnSignBeaconAttestations(ctx context.Context, metadata []*rules.ReqMetadata, req []*rules.SignBeaconAttestationData) []rules.Result {
	res := r.Service.OnSignBeaconAttestations(ctx, metadata, req)
	for i := range metadata {
		if metadata[i] == nil || i >= len(res) {
			continue
		}
		if mode, hit := r.Plan.Hit("rules", fmt.Sprintf("%x", metadata[i].PubKey)); hit {
			res[i] = modeResult(mode)
		}
	}
	if mode, hit := r.Plan.Hit("rules-list", "*"); hit {
		switch {
		case mode == "all-unknown":
			for i := range res {
				res[i] = rules.UNKNOWN
			}
		default:
			var n int
			fmt.Sscanf(mode, "short:%d", &n)
			if n >= 1 && n < len(res) {
				res = res[:n]
			}
		}
	}

	return res
}

// ---- ruler -------------------------------------------------------------------------------------

// FaultRuler overrides the verdicts the signer receives from the ruler (site "ruler", key = hex
// pubkey, mode FAILED|UNKNOWN|DENIED).  The list keeps its length.
type FaultRuler struct {
	ruler.Service
	Plan *FaultPlan
}

// RunRules implements ruler.Service.
func (r *FaultRuler) RunRules(ctx context.Context, credentials *checker.Credentials, action string, data []*ruler.RulesData) []rules.Result {
	res := r.Service.RunRules(ctx, credentials, action, data)
	for i := range data {
		if data[i] == nil || i >= len(res) {
			continue
		}
		if mode, hit := r.Plan.Hit("ruler", fmt.Sprintf("%x", data[i].PubKey)); hit {
			res[i] = modeResult(mode)
		}
	}

	return res
}
