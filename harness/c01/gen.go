// Package c01 decides C01 (attestations) and C02 (proposals): histories of signing requests over a
// real signer stack, against the pairwise slashing oracle over released signatures.
package c01

import (
	"pgregory.net/rapid"

	"verif/harness/vkit"
)

// NKeys is the number of validator keys in the pool.
const NKeys = 4

// Entry is one attestation request (single or batch position).
type Entry struct {
	Key   int      `json:"key"`
	ByKey bool     `json:"by_key"`
	Pad   int      `json:"key_pad,omitempty"` // by_key only: extra bytes appended to the 48-byte public key
	Att   vkit.Att `json:"att"`
}

// Step is one action of a history.
type Step struct {
	Kind    string     `json:"kind"` // attest | batch | propose | restart | writes-fail | writes-ok
	ViaGRPC bool       `json:"via_grpc,omitempty"`
	Entries []Entry    `json:"entries,omitempty"`
	Key     int        `json:"key,omitempty"`
	ByKey   bool       `json:"by_key,omitempty"`
	Pad     int        `json:"key_pad,omitempty"`
	Prop    *vkit.Prop `json:"prop,omitempty"`
	// Par: this step is sent concurrently with the previous one (used by C03; C01/C02 run sequentially).
	Par bool `json:"par,omitempty"`
}

// Case is a history.
type Case struct {
	Steps []Step `json:"steps"`
}

var boundary = []uint64{1<<63 - 2, 1<<63 - 1, 1 << 63, 1<<63 + 1, 1<<63 + 2, 1<<64 - 2, 1<<64 - 1, 1 << 62}

// Epoch draws from the collision-prone mixture of DESIGN C01.
func Epoch(t *rapid.T, label string, allowHigh bool) uint64 {
	k := rapid.IntRange(0, 99).Draw(t, label+"_class")
	switch {
	case k < 60:
		return rapid.Uint64Range(0, 6).Draw(t, label)
	case k < 85:
		v := rapid.SampledFrom(boundary).Draw(t, label)
		if !allowHigh && v > 1<<63-1 {
			return 1<<63 - 1 - (v & 3)
		}

		return v
	default:
		v := rapid.Uint64().Draw(t, label)
		if !allowHigh {
			v >>= 1
		}

		return v
	}
}

var rootPool = [][]byte{
	bytes32(0x11), bytes32(0x22), bytes32(0x33),
}

func bytes32(b byte) []byte {
	r := make([]byte, 32)
	for i := range r {
		r[i] = b
	}

	return r
}

// Root draws from a pool of three roots.
func Root(t *rapid.T, label string) []byte {
	return rootPool[rapid.IntRange(0, len(rootPool)-1).Draw(t, label)]
}

// Domain returns prefix + 28 bytes of suffix drawn from two values.
func Domain(t *rapid.T, prefix [4]byte, label string) []byte {
	d := make([]byte, 32)
	copy(d, prefix[:])
	if rapid.Bool().Draw(t, label) {
		for i := 4; i < 32; i++ {
			d[i] = 0xab
		}
	}

	return d
}

// AttesterPrefix and ProposerPrefix are the domain types.
var (
	AttesterPrefix = [4]byte{1, 0, 0, 0}
	ProposerPrefix = [4]byte{0, 0, 0, 0}
)

// GenAtt draws an attestation.
func GenAtt(t *rapid.T, allowHigh bool) vkit.Att {
	tgt := Epoch(t, "tgt", allowHigh)
	var src uint64
	if rapid.IntRange(0, 11).Draw(t, "genesis") == 11 {
		tgt, src = 0, 0
	} else if rapid.Bool().Draw(t, "src_rel") {
		d := rapid.Uint64Range(0, 3).Draw(t, "src_delta")
		src = tgt - d // may wrap: that is a legitimate request value
		if !allowHigh && src > 1<<63-1 {
			src = 0
		}
	} else {
		src = Epoch(t, "src", allowHigh)
	}

	return vkit.Att{
		Slot:      rapid.SampledFrom([]uint64{0, 1, 1<<64 - 1}).Draw(t, "slot"),
		Index:     rapid.SampledFrom([]uint64{0, 5}).Draw(t, "index"),
		BlockRoot: Root(t, "block_root"),
		SrcEpoch:  src,
		SrcRoot:   Root(t, "src_root"),
		TgtEpoch:  tgt,
		TgtRoot:   Root(t, "tgt_root"),
		Domain:    Domain(t, AttesterPrefix, "dom"),
	}
}

// GenProp draws a proposal.
func GenProp(t *rapid.T, allowHigh bool) *vkit.Prop {
	return &vkit.Prop{
		Slot:          Epoch(t, "pslot", allowHigh),
		ProposerIndex: rapid.SampledFrom([]uint64{0, 7, 1<<64 - 1}).Draw(t, "proposer"),
		ParentRoot:    Root(t, "parent_root"),
		StateRoot:     Root(t, "state_root"),
		BodyRoot:      Root(t, "body_root"),
		Domain:        Domain(t, ProposerPrefix, "pdom"),
	}
}

// GenOpts tunes the history generator.
type GenOpts struct {
	AllowHigh  bool // epochs/slots >= 2^63
	ProposeW   int  // weight of propose steps
	AttestW    int
	BatchW     int
	RestartW   int
	MinSteps   int
	MaxSteps   int
	NoDupBatch bool
	FaultP     int // per cent of restart-slots that toggle a store-write-failure window instead
	ParP       int // per cent of single steps that run concurrently with their predecessor
}

// GenPad draws how many extra bytes follow the public key of a by-key request (mostly none): the
// wire format does not bound the field, and Dirk resolves the account from the first 48 bytes.
func GenPad(t *rapid.T, byKey bool) int {
	if !byKey || rapid.IntRange(0, 9).Draw(t, "pad_any") < 8 {
		return 0
	}

	return rapid.SampledFrom([]int{1, 2, 16, 48}).Draw(t, "pad")
}

// GenStep draws one step.
func GenStep(t *rapid.T, o GenOpts) Step {
	total := o.ProposeW + o.AttestW + o.BatchW + o.RestartW
	k := rapid.IntRange(0, total-1).Draw(t, "kind")
	switch {
	case k < o.AttestW:
		return Step{
			Kind:    "attest",
			ViaGRPC: rapid.IntRange(0, 9).Draw(t, "grpc") >= 7,
			Entries: []Entry{genEntry(t, rapid.IntRange(0, NKeys-1).Draw(t, "key"), o.AllowHigh)},
			Par:     o.ParP > 0 && rapid.IntRange(0, 99).Draw(t, "par") < o.ParP,
		}
	case k < o.AttestW+o.BatchW:
		m := rapid.IntRange(2, 12).Draw(t, "batch_n")
		s := Step{Kind: "batch", ViaGRPC: rapid.IntRange(0, 9).Draw(t, "grpc") >= 7}
		used := map[int]bool{}
		for j := 0; j < m; j++ {
			key := rapid.IntRange(0, NKeys-1).Draw(t, "key")
			if used[key] && (o.NoDupBatch || rapid.IntRange(0, 9).Draw(t, "dup") < 8) {
				// mostly distinct keys; a repeat is kept with probability 0.2
				continue
			}
			used[key] = true
			s.Entries = append(s.Entries, genEntry(t, key, o.AllowHigh))
		}

		return s
	case k < o.AttestW+o.BatchW+o.ProposeW:
		st := Step{
			Kind:    "propose",
			ViaGRPC: rapid.IntRange(0, 9).Draw(t, "grpc") >= 7,
			Key:     rapid.IntRange(0, NKeys-1).Draw(t, "key"),
			ByKey:   rapid.Bool().Draw(t, "bykey"),
			Prop:    GenProp(t, o.AllowHigh),
		}
		st.Pad = GenPad(t, st.ByKey)
		st.Par = o.ParP > 0 && rapid.IntRange(0, 99).Draw(t, "par") < o.ParP

		return st
	default:
		if o.FaultP > 0 && rapid.IntRange(0, 99).Draw(t, "fault_toggle") < o.FaultP {
			// a window in which the store cannot be written (disk full, read-only remount)
			return Step{Kind: rapid.SampledFrom([]string{"writes-fail", "writes-ok"}).Draw(t, "toggle")}
		}

		return Step{Kind: "restart"}
	}
}

func genEntry(t *rapid.T, key int, allowHigh bool) Entry {
	e := Entry{Key: key, ByKey: rapid.Bool().Draw(t, "bykey"), Att: GenAtt(t, allowHigh)}
	e.Pad = GenPad(t, e.ByKey)

	return e
}

// GenCase draws a history.
func GenCase(t *rapid.T, o GenOpts) *Case {
	steps := rapid.SliceOfN(rapid.Custom(func(t *rapid.T) Step { return GenStep(t, o) }), o.MinSteps, o.MaxSteps).Draw(t, "steps")

	return &Case{Steps: steps}
}
