package c01

import (
	"errors"
	"fmt"
	"sync"

	"github.com/attestantio/dirk/util/verifhook"

	"verif/harness/vkit"
)

var (
	worldOnce sync.Once
	world     *vkit.World
	worldErr  error
)

// World returns the shared key pool.
func World() (*vkit.World, error) {
	worldOnce.Do(func() { world, worldErr = vkit.SimpleWorld(NKeys) })

	return world, worldErr
}

// Client is the authorised client used by these histories.
const Client = "client1"

// Outcome summarises what a history exercised (for the non-triviality rule and class counters).
type Outcome struct {
	Requests        int
	Released        int
	ConflictsAtt    int // attestation requests that conflicted with an earlier release (oracle's view)
	ConflictsProp   int
	HasBatch        bool
	HasDupBatch     bool
	MixSingleBatch  bool
	HasRestart      bool
	HighEpoch       bool
	ZeroWatermark   bool
	ByKey           bool
	Padded          bool
	WriteFaults     bool
	ViaGRPC         bool
	ReleasedHigh    bool
	Results         [][]string
	RestartAfterRel bool
}

func isHigh(v uint64) bool { return v >= 1<<63 }

// Run executes a history against a fresh stack and checks the slashing oracle after every step.
// which selects the property: "C01" checks attestations, "C02" proposals (both are always run;
// only violations of the selected kind are reported, the other kind is the other check's job).
func Run(c *Case, which string) (*Outcome, *vkit.Violation, error) {
	w, err := World()
	if err != nil {
		return nil, nil, err
	}
	st, err := vkit.NewStack(vkit.StackOpts{World: w, Permissions: vkit.AllPermissions(Client)})
	if err != nil {
		return nil, nil, err
	}
	defer st.Close()

	h := vkit.NewHistory()
	o := &Outcome{}
	singleKeys := map[int]bool{}
	batchKeys := map[int]bool{}
	relZeroTgt := map[string]bool{}

	checkExport := func(step int) *vkit.Violation {
		exp, err := st.Export()
		if err != nil {
			return vkit.Violf("export-failed", "step %d: export failed: %v", step, err)
		}
		for _, acc := range w.Accounts {
			key := fmt.Sprintf("%x", acc.PubKey)
			e, ok := exp[key]
			if which == "C01" {
				if mt, has := h.MaxTarget(key); has {
					if !ok || e[2] < 0 || uint64(e[2]) < mt {
						return vkit.Violf(sigHigh("export-below-released-target", mt), "step %d: key %s released target %d but export shows %v (present=%v)", step, key[:8], mt, e, ok)
					}
				}
			}
			if which == "C02" {
				if ms, has := h.MaxSlot(key); has {
					if !ok || e[0] < 0 || uint64(e[0]) < ms {
						return vkit.Violf(sigHigh("export-below-released-slot", ms), "step %d: key %s released slot %d but export shows %v (present=%v)", step, key[:8], ms, e, ok)
					}
				}
			}
		}

		return nil
	}

	writesFail := false
	verifhook.Set(func(ev verifhook.Event) error {
		if writesFail && (ev.Name == "store.store.enter" || ev.Name == "store.batch.enter") {
			return errors.New("verif: store cannot be written")
		}

		return nil
	})
	defer verifhook.Set(nil)
	for si, s := range c.Steps {
		switch s.Kind {
		case "writes-fail", "writes-ok":
			writesFail = s.Kind == "writes-fail"
			if writesFail {
				o.WriteFaults = true
			}
			o.Results = append(o.Results, []string{s.Kind})

			continue
		case "restart":
			o.HasRestart = true
			if o.Released > 0 {
				o.RestartAfterRel = true
			}
			if err := st.Restart(); err != nil {
				return o, nil, fmt.Errorf("restart: %w", err)
			}
			o.Results = append(o.Results, []string{"restarted"})
		case "attest":
			e := s.Entries[0]
			acc := w.Accounts[e.Key]
			key := fmt.Sprintf("%x", acc.PubKey)
			singleKeys[e.Key] = true
			o.Requests++
			o.ByKey = o.ByKey || e.ByKey
			o.Padded = o.Padded || (e.ByKey && e.Pad > 0)
			o.ViaGRPC = o.ViaGRPC || s.ViaGRPC
			o.HighEpoch = o.HighEpoch || isHigh(e.Att.SrcEpoch) || isHigh(e.Att.TgtEpoch)
			if _, bad := h.AttConflict(key, &e.Att); bad {
				o.ConflictsAtt++
			}
			if e.Att.TgtEpoch == 0 && relZeroTgt[key] {
				o.ZeroWatermark = true
			}
			a := e.Att
			r := st.Attest(Client, "", vkit.TargetPadded(acc, e.ByKey, e.Pad), s.ViaGRPC, &a)
			o.Results = append(o.Results, []string{r.State})
			if r.Released() {
				o.Released++
				if e.Att.TgtEpoch == 0 {
					relZeroTgt[key] = true
				}
				o.ReleasedHigh = o.ReleasedHigh || isHigh(e.Att.TgtEpoch) || isHigh(e.Att.SrcEpoch)
				if why, bad := h.AddAtt(key, &e.Att); bad && which == "C01" {
					return o, vkit.Violf(sigHigh("slashable-attestation", maxu(e.Att.TgtEpoch, e.Att.SrcEpoch)), "step %d (single, key %d): %s", si, e.Key, why), nil
				}
			}
		case "batch":
			o.HasBatch = true
			ts := make([]vkit.Target, len(s.Entries))
			as := make([]*vkit.Att, len(s.Entries))
			seen := map[int]bool{}
			conflicts := make([]bool, len(s.Entries))
			for i := range s.Entries {
				e := s.Entries[i]
				acc := w.Accounts[e.Key]
				key := fmt.Sprintf("%x", acc.PubKey)
				ts[i] = vkit.TargetPadded(acc, e.ByKey, e.Pad)
				a := e.Att
				as[i] = &a
				if seen[e.Key] {
					o.HasDupBatch = true
				}
				seen[e.Key] = true
				batchKeys[e.Key] = true
				o.Requests++
				o.ByKey = o.ByKey || e.ByKey
				o.Padded = o.Padded || (e.ByKey && e.Pad > 0)
				o.HighEpoch = o.HighEpoch || isHigh(e.Att.SrcEpoch) || isHigh(e.Att.TgtEpoch)
				if _, bad := h.AttConflict(key, &e.Att); bad {
					conflicts[i] = true
					o.ConflictsAtt++
				}
				if e.Att.TgtEpoch == 0 && relZeroTgt[key] {
					o.ZeroWatermark = true
				}
			}
			o.ViaGRPC = o.ViaGRPC || s.ViaGRPC
			rs := st.AttestBatch(Client, "", ts, s.ViaGRPC, as)
			states := make([]string, len(rs))
			for i, r := range rs {
				states[i] = r.State
			}
			o.Results = append(o.Results, states)
			for i, r := range rs {
				if !r.Released() {
					continue
				}
				o.Released++
				if i >= len(s.Entries) {
					return o, vkit.Violf("signature-beyond-request", "step %d: signature at position %d of a %d-entry batch", si, i, len(s.Entries)), nil
				}
				e := s.Entries[i]
				key := fmt.Sprintf("%x", w.Accounts[e.Key].PubKey)
				if e.Att.TgtEpoch == 0 {
					relZeroTgt[key] = true
				}
				o.ReleasedHigh = o.ReleasedHigh || isHigh(e.Att.TgtEpoch) || isHigh(e.Att.SrcEpoch)
				if why, bad := h.AddAtt(key, &e.Att); bad && which == "C01" {
					return o, vkit.Violf(sigHigh("slashable-attestation", maxu(e.Att.TgtEpoch, e.Att.SrcEpoch)), "step %d (batch position %d, key %d): %s", si, i, e.Key, why), nil
				}
			}
		case "propose":
			acc := w.Accounts[s.Key]
			key := fmt.Sprintf("%x", acc.PubKey)
			o.Requests++
			o.ByKey = o.ByKey || s.ByKey
			o.Padded = o.Padded || (s.ByKey && s.Pad > 0)
			o.ViaGRPC = o.ViaGRPC || s.ViaGRPC
			o.HighEpoch = o.HighEpoch || isHigh(s.Prop.Slot)
			if _, bad := h.PropConflict(key, s.Prop); bad {
				o.ConflictsProp++
			}
			if s.Prop.Slot == 0 && h.NumProps(key) > 0 {
				o.ZeroWatermark = true
			}
			p := *s.Prop
			r := st.Propose(Client, "", vkit.TargetPadded(acc, s.ByKey, s.Pad), s.ViaGRPC, &p)
			o.Results = append(o.Results, []string{r.State})
			if r.Released() {
				o.Released++
				o.ReleasedHigh = o.ReleasedHigh || isHigh(s.Prop.Slot)
				if why, bad := h.AddProp(key, s.Prop); bad && which == "C02" {
					return o, vkit.Violf(sigHigh("non-increasing-proposal", s.Prop.Slot), "step %d (key %d): %s", si, s.Key, why), nil
				}
			}
		default:
			return o, nil, fmt.Errorf("unknown step kind %q", s.Kind)
		}
		if v := checkExport(si); v != nil {
			return o, v, nil
		}
	}
	for k := range singleKeys {
		if batchKeys[k] {
			o.MixSingleBatch = true
		}
	}

	return o, nil, nil
}

func maxu(a, b uint64) uint64 {
	if a > b {
		return a
	}

	return b
}

// sigHigh tags a violation class with whether it involves a value >= 2^63 (two different root
// causes would be two different findings).
func sigHigh(base string, v uint64) string {
	if isHigh(v) {
		return base + ".ge2^63"
	}

	return base
}
