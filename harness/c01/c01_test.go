package c01

import (
	"encoding/json"
	"testing"
	"time"

	"pgregory.net/rapid"

	"verif/harness/vkit"
)

func count(o *Outcome, which string) {
	s := vkit.S
	if o.HasBatch {
		s.Class("has-batch")
	}
	if o.HasDupBatch {
		s.Class("batch-repeats-key")
	}
	if o.MixSingleBatch {
		s.Class("single+batch-on-one-key")
	}
	if o.HasRestart {
		s.Class("has-restart")
	}
	if o.RestartAfterRel {
		s.Class("restart-after-release")
	}
	if o.HighEpoch {
		s.Class("uses-value>=2^63")
	}
	if o.ZeroWatermark {
		s.Class("request-at-0-after-release-at-0")
	}
	if o.ByKey {
		s.Class("by-public-key")
	}
	if o.ViaGRPC {
		s.Class("via-grpc-handler")
	}
	if o.Padded {
		s.Class("public-key-with-trailing-bytes")
	}
	if o.WriteFaults {
		s.Class("history-with-a-store-write-failure-window")
	}
	s.ClassN("requests", o.Requests)
	s.ClassN("released-signatures", o.Released)
	s.ClassN("conflicting-attestation-requests", o.ConflictsAtt)
	s.ClassN("conflicting-proposal-requests", o.ConflictsProp)
}

func runProp(t *testing.T, which, test string, opts GenOpts) {
	defer vkit.Flush()
	for _, r := range vkit.ReplayFiles(test) {
		var c Case
		if err := json.Unmarshal(r.Case, &c); err != nil {
			t.Fatalf("bad replay case: %v", err)
		}
		_, v, err := Run(&c, which)
		if err != nil {
			t.Fatalf("replay infrastructure error: %v", err)
		}
		vkit.S.Class("replayed-regression-cases")
		vkit.Report(t, which, test, &c, v)
	}
	if vkit.ReplayOnly() {
		return
	}
	rapid.Check(t, func(rt *rapid.T) {
		c := GenCase(rt, opts)
		stop := vkit.Watch(c, 120*time.Second)
		o, v, err := Run(c, which)
		stop()
		if err != nil {
			rt.Fatalf("INFRA: %v", err)
		}
		vkit.S.Eval()
		count(o, which)
		nt := (which == "C01" && o.ConflictsAtt > 0) || (which == "C02" && o.ConflictsProp > 0)
		if nt {
			vkit.S.Nontrivial(c)
		}
		vkit.S.Sample(map[string]any{"case": c, "results": o.Results}, nt && o.HasRestart)
		vkit.Report(rt, which, test, c, v)
	})
}

// TestC01 decides C01.
func TestC01(t *testing.T) {
	runProp(t, "C01", "TestC01", GenOpts{AllowHigh: true, AttestW: 55, BatchW: 25, ProposeW: 8, RestartW: 12, MinSteps: 1, MaxSteps: 40, FaultP: 30})
}

// TestC02 decides C02.
func TestC02(t *testing.T) {
	runProp(t, "C02", "TestC02", GenOpts{AllowHigh: true, AttestW: 8, BatchW: 4, ProposeW: 75, RestartW: 13, MinSteps: 1, MaxSteps: 40, FaultP: 30})
}
