// Package c16 decides C16: key-generation messages are honoured only from peers, and a contribution
// reply carries only the caller's own share.
package c16

import (
	"bytes"
	"encoding/json"
	"fmt"
	"strings"
	"testing"
	"time"

	"github.com/herumi/bls-eth-go-binary/bls"
	pb "github.com/wealdtech/eth2-signer-api/pb/v1"
	"google.golang.org/protobuf/proto"
	"pgregory.net/rapid"

	"verif/harness/vkit"
)

const client = "client1"

// Inject is one rogue message.
type Inject struct {
	At      int    `json:"at"`      // delivered just before the At-th honest message
	Caller  string `json:"caller"`  // client | unknown | empty | bystander-peer | peer-upper | peer-prefix | peer-suffix | peer-space
	Message string `json:"message"` // prepare | execute | contribute | commit | abort
	// Body makes the message's body malformed: "" well-formed | empty-secret | garbage-secret |
	// garbage-vector-entry | no-vector (contribute) | no-participants | zero-threshold (prepare) |
	// no-confirmation (commit).  Other combinations leave the body well-formed.
	Body string `json:"body,omitempty"`
}

// Case is an honest generation with rogue messages injected.
type Case struct {
	IDs     []uint64 `json:"ids"`
	N       uint32   `json:"participants"`
	T       uint32   `json:"threshold"`
	Injects []Inject `json:"injects"`
}

func polynomial(n int) ([]bls.SecretKey, [][]byte) {
	sks := make([]bls.SecretKey, n)
	vvec := make([][]byte, n)
	for i := range sks {
		sks[i].SetByCSPRNG()
		vvec[i] = sks[i].GetPublicKey().Serialize()
	}

	return sks, vvec
}

func pubOf(secret []byte) ([]byte, error) {
	var sk bls.SecretKey
	if err := sk.Deserialize(secret); err != nil {
		return nil, err
	}

	return sk.GetPublicKey().Serialize(), nil
}

type outcome struct {
	nonPeerDelivered   int
	nonPeerWhileActive int
	bystanderDelivered int
	sharesChecked      int
	states             map[string]int
	success            bool
	message            string
}

func run(c *Case) (*outcome, *vkit.Violation, error) {
	cl, err := vkit.NewCluster(vkit.ClusterOpts{IDs: c.IDs, Permissions: vkit.AllPermissions(client)})
	if err != nil {
		return nil, nil, err
	}
	defer cl.Close()
	o := &outcome{states: map[string]int{}}
	name := "acc16"
	account := vkit.DWallet + "/" + name
	var viol *vkit.Violation
	var participants []*pb.Endpoint
	isParticipant := func(id uint64) bool {
		for _, p := range participants {
			if p.GetId() == id {
				return true
			}
		}

		return false
	}
	count := 0
	var hook func(m *vkit.Msg) error
	var checkReply func(m *vkit.Msg) error
	inject := func(in Inject, next *vkit.Msg) {
		var req proto.Message
		to := next.To
		switch in.Message {
		case "prepare":
			ps := participants
			if ps == nil {
				for i, id := range c.IDs {
					ps = append(ps, &pb.Endpoint{Id: id, Name: vkit.NodeName(i), Port: uint32(9000 + i)})
				}
				ps = ps[:c.N]
			}
			req = &pb.PrepareRequest{Account: account, Threshold: c.T, Participants: ps, Passphrase: []byte("x")}
		case "execute":
			req = &pb.ExecuteRequest{Account: account}
		case "commit":
			req = &pb.CommitRequest{Account: account, ConfirmationData: bytes.Repeat([]byte{7}, 32)}
		case "abort":
			req = &pb.AbortRequest{Account: account}
		case "contribute":
			sks, vvec := polynomial(int(c.T))
			var s bls.SecretKey
			_ = s.Set(sks, vkit.BLSID(to))
			cr := &pb.ContributeRequest{Account: account, Secret: s.Serialize(), VerificationVector: vvec}
			switch in.Body {
			case "empty-secret":
				cr.Secret = nil
			case "garbage-secret":
				cr.Secret = bytes.Repeat([]byte{0xff}, 5)
			case "garbage-vector-entry":
				cr.VerificationVector[len(vvec)-1] = []byte{1, 2, 3}
			case "no-vector":
				cr.VerificationVector = nil
			}
			req = cr
		}
		switch r := req.(type) {
		case *pb.PrepareRequest:
			switch in.Body {
			case "no-participants":
				r.Participants = nil
			case "zero-threshold":
				r.Threshold = 0
			}
		case *pb.CommitRequest:
			if in.Body == "no-confirmation" {
				r.ConfirmationData = nil
			}
		}
		m := &vkit.Msg{Kind: in.Message, To: to, Account: account, Req: req}
		var fromName string
		switch in.Caller {
		case "client":
			fromName = client
		case "unknown":
			fromName = "nobody-in-particular"
		case "empty", "none":
			fromName = ""
		case "peer-upper": // near misses of a real peer's name: none of them is a configured peer
			fromName = strings.ToUpper(vkit.NodeName(0))
		case "peer-prefix":
			fromName = vkit.NodeName(0)[:len(vkit.NodeName(0))-1]
		case "peer-suffix":
			fromName = vkit.NodeName(0) + "1"
		case "peer-space":
			fromName = vkit.NodeName(1) + " "
		case "bystander-peer":
			// a configured peer that takes no part in this generation
			for i, id := range c.IDs {
				if participants != nil && !isParticipant(id) {
					fromName = vkit.NodeName(i)
					m.From = id
				}
			}
			if m.From == 0 {
				return // everyone participates, or the participants are not known yet
			}
		}
		m.FromName = &fromName
		_, err := cl.Net.DeliverRaw(m)
		if err == nil {
			_ = checkReply(m) // the reply to a rogue contribution is held to the same share-ownership rule
		}
		if in.Caller == "bystander-peer" {
			o.bystanderDelivered++

			return
		}
		o.nonPeerDelivered++
		if participants != nil {
			o.nonPeerWhileActive++
		}
		if err == nil && viol == nil {
			viol = vkit.Violf("non-peer-message-accepted."+in.Message, "a %s message from caller %q (%s) was answered without error by instance %d", in.Message, fromName, in.Caller, to)
		}
	}
	hook = func(m *vkit.Msg) error {
		if m.Kind == "prepare" && participants == nil {
			// learn the participants from the first honest prepare (after rogue messages due before it)
			defer func() { participants = m.Req.(*pb.PrepareRequest).GetParticipants() }()
		}
		idx := count
		count++
		for _, in := range c.Injects {
			if in.At == idx {
				state := "none"
				switch {
				case m.Kind == "prepare" && participants != nil:
					state = "prepared"
				case m.Kind == "execute" || m.Kind == "contribute":
					state = "executing"
				case m.Kind == "commit":
					state = "all-contributed"
				}
				o.states[state]++
				inject(in, m)
			}
		}

		return nil
	}
	cl.Net.Before = hook
	checkReply = func(m *vkit.Msg) error {
		if m.Kind != "contribute" || m.Resp == nil {
			return nil
		}
		r := m.Resp.(*pb.ContributeResponse)
		if m.From == 0 || len(r.GetVerificationVector()) == 0 {
			return nil
		}
		got, err := pubOf(r.GetSecret())
		if err != nil {
			return nil
		}
		o.sharesChecked++
		for _, p := range participants {
			want, err := vkit.EvalVVec(r.GetVerificationVector(), p.GetId())
			if err != nil {
				return nil
			}
			same := bytes.Equal(got, want)
			switch {
			case p.GetId() == m.From && !same && isParticipant(m.From) && viol == nil:
				viol = vkit.Violf("share-not-the-callers", "instance %d answered participant %d's contribution with a share that is not its vector evaluated at %d", m.To, m.From, m.From)
			case p.GetId() != m.From && same && viol == nil:
				viol = vkit.Violf("share-of-another-participant-disclosed", "instance %d answered caller %d's contribution with the share that belongs to participant %d", m.To, m.From, p.GetId())
			}
		}

		return nil
	}
	cl.Net.After = checkReply
	resp, err := cl.Nodes[0].Generate(client, account, c.N, c.T)
	if err != nil {
		return o, nil, err
	}
	o.success = resp.GetState() == pb.ResponseState_SUCCEEDED
	o.message = resp.GetMessage()
	if len(cl.Net.HookPanics) > 0 {
		return o, nil, fmt.Errorf("a hook of the check itself panicked: %s", cl.Net.HookPanics[0])
	}
	if len(cl.Net.Panics) > 0 {
		return o, vkit.Violf("instance-crashed", "%v", cl.Net.Panics), nil
	}
	if viol != nil {
		return o, viol, nil
	}
	if o.bystanderDelivered == 0 {
		// only non-peers interfered: the generation must end exactly as the undisturbed one does
		if !o.success {
			return o, vkit.Violf("non-peer-message-changed-outcome", "generation n=%d t=%d failed (%s) although only non-peers sent rogue messages %v", c.N, c.T, o.message, c.Injects), nil
		}
		var composite []byte
		holders := 0
		for _, n := range cl.Nodes {
			da, held, err := n.StoredDistAccount(name)
			if err != nil {
				return o, nil, err
			}
			if !held {
				continue
			}
			holders++
			if composite == nil {
				composite = da.CompositePub
			} else if !bytes.Equal(composite, da.CompositePub) {
				return o, vkit.Violf("non-peer-message-changed-outcome", "participants hold different composite keys after rogue messages %v", c.Injects), nil
			}
		}
		if holders != int(c.N) || !bytes.Equal(composite, resp.GetPublicKey()) {
			return o, vkit.Violf("non-peer-message-changed-outcome", "after rogue messages %v: %d holders for %d participants", c.Injects, holders, c.N), nil
		}
	}

	return o, nil, nil
}

// idle checks the five messages from non-peers against an instance with no session, followed by an
// honest abort that must still say "not in progress".
func idle(callers []string) *vkit.Violation {
	cl, err := vkit.NewCluster(vkit.ClusterOpts{IDs: []uint64{5, 6, 7}, Permissions: vkit.AllPermissions(client)})
	if err != nil {
		return vkit.Violf("infra", "%v", err)
	}
	defer cl.Close()
	account := vkit.DWallet + "/idle"
	for _, caller := range callers {
		for _, kind := range []string{"prepare", "execute", "contribute", "commit", "abort"} {
			var req proto.Message
			switch kind {
			case "prepare":
				req = &pb.PrepareRequest{Account: account, Threshold: 2, Participants: []*pb.Endpoint{{Id: 5, Name: vkit.NodeName(0), Port: 9000}, {Id: 6, Name: vkit.NodeName(1), Port: 9001}, {Id: 7, Name: vkit.NodeName(2), Port: 9002}}}
			case "execute":
				req = &pb.ExecuteRequest{Account: account}
			case "commit":
				req = &pb.CommitRequest{Account: account, ConfirmationData: bytes.Repeat([]byte{1}, 32)}
			case "abort":
				req = &pb.AbortRequest{Account: account}
			case "contribute":
				sks, vvec := polynomial(2)
				var s bls.SecretKey
				_ = s.Set(sks, vkit.BLSID(5))
				req = &pb.ContributeRequest{Account: account, Secret: s.Serialize(), VerificationVector: vvec}
			}
			name := caller
			if _, err := cl.Net.Deliver(&vkit.Msg{Kind: kind, To: 5, Account: account, Req: req, FromName: &name}); err == nil {
				return vkit.Violf("non-peer-message-accepted."+kind, "idle instance answered a %s from caller %q without error", kind, caller)
			}
		}
	}
	// an honest peer's abort: nothing may have been created by the rogue prepares
	if _, err := cl.Net.Deliver(&vkit.Msg{Kind: "abort", From: 6, To: 5, Account: account, Req: &pb.AbortRequest{Account: account}}); err == nil {
		return vkit.Violf("non-peer-prepare-created-session", "after rogue prepares an honest abort found a generation in progress")
	}
	if s, f := cl.ByID[5].HasAccount("idle"); s || f {
		return vkit.Violf("non-peer-message-created-account", "an account exists after rogue messages")
	}

	return nil
}

// TestC16 decides C16.
func TestC16(t *testing.T) {
	defer vkit.Flush()
	for _, r := range vkit.ReplayFiles("TestC16") {
		var c Case
		if err := json.Unmarshal(r.Case, &c); err != nil {
			t.Fatalf("bad replay case: %v", err)
		}
		o, v, err := run(&c)
		if err != nil {
			t.Fatalf("replay infrastructure error: %v", err)
		}
		t.Logf("replay: success=%v message=%q", o.success, o.message)
		vkit.Report(t, "C16", "TestC16", &c, v)
	}
	if vkit.ReplayOnly() {
		return
	}
	if v := idle([]string{client, "nobody", "", strings.ToUpper(vkit.NodeName(1)), vkit.NodeName(1) + "0", vkit.NodeName(1)[:5]}); v != nil {
		vkit.Report(t, "C16", "TestC16", map[string]any{"idle": true}, v)
	}
	vkit.S.Class("idle-instance-probed")
	rapid.Check(t, func(rt *rapid.T) {
		nInst := rapid.IntRange(3, 5).Draw(rt, "instances")
		ids := rapid.Permutation([]uint64{1, 2, 3, 4, 1 << 63, 1<<64 - 1, 70000}).Draw(rt, "ids")[:nInst]
		c := &Case{IDs: ids}
		c.N = uint32(rapid.IntRange(2, nInst).Draw(rt, "n"))
		c.T = uint32(rapid.IntRange(int(c.N)/2+1, int(c.N)).Draw(rt, "t"))
		total := int(c.N)*3 + int(c.N*(c.N-1))/2
		ni := rapid.IntRange(1, 3).Draw(rt, "ninjects")
		for i := 0; i < ni; i++ {
			c.Injects = append(c.Injects, Inject{
				At:      rapid.IntRange(0, total-1).Draw(rt, "at"),
				Caller:  rapid.SampledFrom([]string{"client", "client", "unknown", "empty", "bystander-peer", "peer-upper", "peer-prefix", "peer-suffix", "peer-space"}).Draw(rt, "caller"),
				Message: rapid.SampledFrom([]string{"prepare", "execute", "contribute", "commit", "abort"}).Draw(rt, "message"),
			})
			in := &c.Injects[len(c.Injects)-1]
			if rapid.IntRange(0, 2).Draw(rt, "malformed") == 0 {
				switch in.Message {
				case "contribute":
					in.Body = rapid.SampledFrom([]string{"empty-secret", "garbage-secret", "garbage-vector-entry", "no-vector"}).Draw(rt, "body")
				case "prepare":
					in.Body = rapid.SampledFrom([]string{"no-participants", "zero-threshold"}).Draw(rt, "body")
				case "commit":
					in.Body = "no-confirmation"
				}
			}
		}
		stop := vkit.Watch(c, 120*time.Second)
		o, v, err := run(c)
		stop()
		if err != nil {
			rt.Fatalf("INFRA: %v", err)
		}
		vkit.S.Eval()
		vkit.S.ClassN("non-peer-messages-delivered", o.nonPeerDelivered)
		vkit.S.ClassN("bystander-peer-messages-delivered", o.bystanderDelivered)
		vkit.S.ClassN("contribution-replies-checked-for-share-ownership", o.sharesChecked)
		for k, n := range o.states {
			vkit.S.ClassN("session-state-"+k, n)
		}
		for _, in := range c.Injects {
			vkit.S.Class(fmt.Sprintf("inject-%s-from-%s", in.Message, in.Caller))
			if in.Body != "" {
				vkit.S.Class("inject-with-malformed-body-" + in.Body)
			}
		}
		if o.nonPeerWhileActive > 0 {
			vkit.S.Nontrivial(c)
		}
		vkit.S.Sample(map[string]any{"case": c, "success": o.success, "message": o.message}, o.nonPeerWhileActive > 1)
		vkit.Report(rt, "C16", "TestC16", c, v)
	})
}
