// Package c05 decides C05: slashable domain types are signed only by the protected endpoints, the
// protected endpoints refuse every other domain type, and voluntary exits need an administrator IP.
package c05

import (
	"encoding/binary"
	"encoding/json"
	"fmt"
	"sync"
	"testing"
	"time"

	memfetcher "github.com/attestantio/dirk/services/fetcher/mem"
	"pgregory.net/rapid"

	"verif/harness/vkit"
)

const (
	nKeys  = 10
	client = "client1"
)

var (
	once    sync.Once
	world   *vkit.World
	fetcher *memfetcher.Service
	initErr error
)

func setup() error {
	once.Do(func() {
		world, initErr = vkit.SimpleWorld(nKeys)
		if initErr == nil {
			fetcher, initErr = vkit.NewFetcher(world)
		}
	})

	return initErr
}

type prefixClass struct {
	Name   string
	Prefix [4]byte
}

var (
	attester = [4]byte{1, 0, 0, 0}
	proposer = [4]byte{0, 0, 0, 0}
	exit     = [4]byte{4, 0, 0, 0}
)

var classes = []prefixClass{
	{"attester", attester}, {"proposer", proposer}, {"exit", exit},
	{"randao", [4]byte{2, 0, 0, 0}}, {"deposit", [4]byte{3, 0, 0, 0}}, {"selection-proof", [4]byte{5, 0, 0, 0}},
	{"aggregate-and-proof", [4]byte{6, 0, 0, 0}}, {"sync-committee", [4]byte{7, 0, 0, 0}}, {"sync-selection", [4]byte{8, 0, 0, 0}},
	{"contribution", [4]byte{9, 0, 0, 0}}, {"bls-to-exec", [4]byte{10, 0, 0, 0}}, {"application", [4]byte{0, 0, 0, 1}},
	{"near-attester-01000001", [4]byte{1, 0, 0, 1}}, {"near-00010000", [4]byte{0, 1, 0, 0}}, {"near-exit-04000001", [4]byte{4, 0, 0, 1}},
	{"near-01010000", [4]byte{1, 1, 0, 0}}, {"random", [4]byte{}},
}

var adminConfigs = [][]string{
	nil,
	{"10.1.2.3"},
	{"10.1.2.3", "192.168.0.7", "2001:db8::1", "::1", "127.0.0.1"},
}

var sourceIPs = []string{"", "10.1.2.3", "2001:db8::1", "10.1.2.4", "8.8.8.8", "2001:db8::2", "192.168.0.70"}

// Entry is one request position.
type Entry struct {
	Key       int    `json:"key"`
	ByKey     bool   `json:"by_key,omitempty"`
	Class     string `json:"class"`
	Domain    []byte `json:"domain"`
	DataSalt  uint64 `json:"salt"`
	Advancing bool   `json:"-"`
}

// Case is one call on one endpoint under one configuration.
type Case struct {
	Endpoint string   `json:"endpoint"` // sign | multisign | attest | attests | propose
	ViaGRPC  bool     `json:"via_grpc"`
	AdminIPs []string `json:"admin_ips"`
	SourceIP string   `json:"source_ip"`
	History  int      `json:"benign_history"` // number of benign attest+propose rounds before the call
	Entries  []Entry  `json:"entries"`
}

func genDomain(t *rapid.T, viaGRPC bool) (string, []byte) {
	ci := rapid.IntRange(0, len(classes)-1).Draw(t, "class")
	// the three classes the statement names are drawn more often
	if rapid.IntRange(0, 9).Draw(t, "named") < 4 {
		ci = rapid.IntRange(0, 2).Draw(t, "named_class")
	}
	c := classes[ci]
	pfx := c.Prefix
	if c.Name == "random" {
		v := rapid.Uint32().Draw(t, "rndpfx")
		binary.LittleEndian.PutUint32(pfx[:], v)
		switch pfx {
		case attester, proposer, exit:
			pfx[3] ^= 0x40
		}
	}
	n := 32
	name := c.Name
	if rapid.IntRange(0, 19).Draw(t, "oddlen") == 0 {
		// refusal direction only: a domain that is not 32 bytes long but carries the prefix
		lens := []int{4, 5, 16, 31, 33, 64}
		if viaGRPC {
			lens = append(lens, 1, 3) // shorter than the prefix only as it would arrive over the wire
		}
		n = rapid.SampledFrom(lens).Draw(t, "len")
		name += fmt.Sprintf("/len%d", n)
	}
	d := make([]byte, n)
	copy(d, pfx[:])
	sfx := rapid.Uint64().Draw(t, "suffix")
	for i := 4; i < n; i++ {
		d[i] = byte(sfx >> (uint(i%8) * 8))
	}

	return name, d
}

func genCase(t *rapid.T) *Case {
	c := &Case{
		Endpoint: rapid.SampledFrom([]string{"sign", "sign", "multisign", "multisign", "attest", "attests", "propose"}).Draw(t, "endpoint"),
		ViaGRPC:  rapid.Bool().Draw(t, "grpc"),
		AdminIPs: adminConfigs[rapid.IntRange(0, len(adminConfigs)-1).Draw(t, "admin")],
		SourceIP: rapid.SampledFrom(sourceIPs).Draw(t, "srcip"),
		History:  rapid.IntRange(0, 2).Draw(t, "history"),
	}
	n := 1
	if c.Endpoint == "multisign" || c.Endpoint == "attests" {
		n = rapid.IntRange(1, 8).Draw(t, "n")
	}
	start := rapid.IntRange(0, nKeys-1).Draw(t, "kstart")
	for i := 0; i < n; i++ {
		name, d := genDomain(t, c.ViaGRPC)
		c.Entries = append(c.Entries, Entry{Key: (start + i) % nKeys, ByKey: rapid.Bool().Draw(t, "bykey"), Class: name, Domain: d, DataSalt: rapid.Uint64().Draw(t, "salt")})
	}

	return c
}

func rootOf(salt uint64, b byte) []byte {
	r := make([]byte, 32)
	binary.LittleEndian.PutUint64(r, salt)
	r[31] = b

	return r
}

func hasPrefix(d []byte, p [4]byte) bool {
	return len(d) >= 4 && d[0] == p[0] && d[1] == p[1] && d[2] == p[2] && d[3] == p[3]
}

func listed(ips []string, ip string) bool {
	for _, a := range ips {
		if a == ip {
			return true
		}
	}

	return false
}

type outcome struct {
	nontrivial   bool
	exitListedOK int
	exitRefused  int
	otherOK      int
	protectedOK  int
}

func run(c *Case) (*outcome, *vkit.Violation, error) {
	if err := setup(); err != nil {
		return nil, nil, err
	}
	st, err := vkit.NewStack(vkit.StackOpts{World: world, SharedFetcher: fetcher, Permissions: vkit.AllPermissions(client), AdminIPs: c.AdminIPs})
	if err != nil {
		return nil, nil, err
	}
	defer st.Close()
	o := &outcome{}
	// benign history so that there is stored state to protect
	for h := 0; h < c.History; h++ {
		for _, e := range c.Entries {
			acc := world.Accounts[e.Key]
			a := &vkit.Att{Slot: 1, BlockRoot: rootOf(1, 1), SrcEpoch: uint64(h), SrcRoot: rootOf(1, 2), TgtEpoch: uint64(h + 1), TgtRoot: rootOf(1, 3), Domain: append(attester[:], make([]byte, 28)...)}
			if r := st.Attest(client, "", vkit.TargetOf(acc, false), false, a); !r.OK() {
				return o, nil, fmt.Errorf("benign attestation refused: %s", r.State)
			}
			p := &vkit.Prop{Slot: uint64(h + 1), ParentRoot: rootOf(1, 4), StateRoot: rootOf(1, 5), BodyRoot: rootOf(1, 6), Domain: make([]byte, 32)}
			if r := st.Propose(client, "", vkit.TargetOf(acc, false), false, p); !r.OK() {
				return o, nil, fmt.Errorf("benign proposal refused: %s", r.State)
			}
		}
	}
	before, err := st.Export()
	if err != nil {
		return o, nil, err
	}
	ts := make([]vkit.Target, len(c.Entries))
	for i, e := range c.Entries {
		ts[i] = vkit.TargetOf(world.Accounts[e.Key], e.ByKey)
	}
	base := uint64(c.History + 5)
	var rs []vkit.Res
	switch c.Endpoint {
	case "sign":
		e := c.Entries[0]
		rs = []vkit.Res{st.SignGeneric(client, c.SourceIP, ts[0], c.ViaGRPC, &vkit.Generic{Data: rootOf(e.DataSalt, 9), Domain: e.Domain})}
	case "multisign":
		gs := make([]*vkit.Generic, len(c.Entries))
		for i, e := range c.Entries {
			gs[i] = &vkit.Generic{Data: rootOf(e.DataSalt, 9), Domain: e.Domain}
		}
		rs = st.Multisign(client, c.SourceIP, ts, c.ViaGRPC, gs)
	case "attest", "attests":
		as := make([]*vkit.Att, len(c.Entries))
		for i, e := range c.Entries {
			as[i] = &vkit.Att{Slot: 2, BlockRoot: rootOf(e.DataSalt, 1), SrcEpoch: base, SrcRoot: rootOf(e.DataSalt, 2), TgtEpoch: base + 1, TgtRoot: rootOf(e.DataSalt, 3), Domain: e.Domain}
		}
		if c.Endpoint == "attest" {
			rs = []vkit.Res{st.Attest(client, c.SourceIP, ts[0], c.ViaGRPC, as[0])}
		} else {
			rs = st.AttestBatch(client, c.SourceIP, ts, c.ViaGRPC, as)
		}
	case "propose":
		e := c.Entries[0]
		rs = []vkit.Res{st.Propose(client, c.SourceIP, ts[0], c.ViaGRPC, &vkit.Prop{Slot: base, ParentRoot: rootOf(e.DataSalt, 4), StateRoot: rootOf(e.DataSalt, 5), BodyRoot: rootOf(e.DataSalt, 6), Domain: e.Domain})}
	default:
		return o, nil, fmt.Errorf("unknown endpoint %q", c.Endpoint)
	}
	after, err := st.Export()
	if err != nil {
		return o, nil, err
	}
	generic := c.Endpoint == "sign" || c.Endpoint == "multisign"
	for i, e := range c.Entries {
		var r vkit.Res
		if i < len(rs) {
			r = rs[i]
		} else {
			r = vkit.Res{State: "<absent>"}
		}
		signed := r.Released() || r.OK()
		key := fmt.Sprintf("%x", world.Accounts[e.Key].PubKey)
		where := fmt.Sprintf("%s (grpc=%v) position %d/%d class %s domain %x source-ip %q admin-ips %v", c.Endpoint, c.ViaGRPC, i, len(c.Entries), e.Class, e.Domain, c.SourceIP, c.AdminIPs)
		switch {
		case generic && (hasPrefix(e.Domain, attester) || hasPrefix(e.Domain, proposer)):
			o.nontrivial = true
			if signed {
				return o, vkit.Violf("generic-signed-slashable-domain", "%s: answered %s with %d signature bytes", where, r.State, len(r.Sig)), nil
			}
		case generic && hasPrefix(e.Domain, exit):
			o.nontrivial = true
			if signed && !(c.SourceIP != "" && listed(c.AdminIPs, c.SourceIP)) {
				return o, vkit.Violf("exit-signed-without-admin-ip", "%s: answered %s with %d signature bytes", where, r.State, len(r.Sig)), nil
			}
			if signed {
				o.exitListedOK++
			} else {
				o.exitRefused++
			}
		case generic:
			if signed {
				o.otherOK++
			}
		case (c.Endpoint == "attest" || c.Endpoint == "attests") && !hasPrefix(e.Domain, attester),
			c.Endpoint == "propose" && !hasPrefix(e.Domain, proposer):
			o.nontrivial = true
			if signed {
				return o, vkit.Violf("protected-endpoint-signed-foreign-domain", "%s: answered %s with %d signature bytes", where, r.State, len(r.Sig)), nil
			}
			// State preservation is asserted for 32-byte domains only (the property quantifies over
			// 32-byte domains; a shorter wire value such as the single byte 01 is read by Dirk as the
			// attester type, approved by the rule and then fails at hashing: fail-closed, C06's subject).
			if len(e.Domain) == 32 && before[key] != after[key] {
				return o, vkit.Violf("refused-request-changed-state", "%s: refused (%s) but the stored record went from %v to %v", where, r.State, before[key], after[key]), nil
			}
		default:
			if signed {
				o.protectedOK++
			}
		}
	}
	for i := len(c.Entries); i < len(rs); i++ {
		if rs[i].Released() {
			return o, vkit.Violf("signature-beyond-request", "%s: signature at position %d of %d", c.Endpoint, i, len(c.Entries)), nil
		}
	}

	return o, nil, nil
}

// TestC05 decides C05.
func TestC05(t *testing.T) {
	defer vkit.Flush()
	for _, r := range vkit.ReplayFiles("TestC05") {
		var c Case
		if err := json.Unmarshal(r.Case, &c); err != nil {
			t.Fatalf("bad replay case: %v", err)
		}
		_, v, err := run(&c)
		if err != nil {
			t.Fatalf("replay infrastructure error: %v", err)
		}
		vkit.Report(t, "C05", "TestC05", &c, v)
	}
	if vkit.ReplayOnly() {
		return
	}
	rapid.Check(t, func(rt *rapid.T) {
		c := genCase(rt)
		stop := vkit.Watch(c, 120*time.Second)
		o, v, err := run(c)
		stop()
		if err != nil {
			rt.Fatalf("INFRA: %v", err)
		}
		vkit.S.Eval()
		vkit.S.Class("endpoint-" + c.Endpoint)
		vkit.S.ClassN("exit-from-listed-ip-signed", o.exitListedOK)
		vkit.S.ClassN("exit-refused", o.exitRefused)
		vkit.S.ClassN("other-generic-domain-signed", o.otherOK)
		vkit.S.ClassN("right-domain-on-protected-endpoint-signed", o.protectedOK)
		for _, e := range c.Entries {
			if len(e.Domain) != 32 {
				vkit.S.Class("domain-length-not-32")
			}
		}
		if o.nontrivial {
			vkit.S.Nontrivial(c)
		}
		vkit.S.Sample(c, o.nontrivial && len(c.Entries) > 1)
		vkit.Report(rt, "C05", "TestC05", c, v)
	})
}
