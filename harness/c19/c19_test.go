// Package c19 decides C19: nothing is served without a certificate from the configured authority,
// and accepted callers are identified by the subject name of the verified certificate.
package c19

import (
	"context"
	"crypto/tls"
	"crypto/x509"
	"encoding/binary"
	"encoding/json"
	"encoding/pem"
	"fmt"
	"net"
	"reflect"
	"sort"
	"strings"
	"sync"
	"testing"
	"time"

	grpcapi "github.com/attestantio/dirk/services/api/grpc"
	"github.com/herumi/bls-eth-go-binary/bls"
	pb "github.com/wealdtech/eth2-signer-api/pb/v1"
	e2wtypes "github.com/wealdtech/go-eth2-wallet-types/v2"
	"google.golang.org/grpc"
	"google.golang.org/grpc/credentials"
	"google.golang.org/grpc/credentials/insecure"
	"google.golang.org/grpc/metadata"
	"google.golang.org/protobuf/proto"
	"google.golang.org/protobuf/types/known/emptypb"
	"pgregory.net/rapid"

	"verif/harness/vkit"
)

// Cred is a caller credential.
type Cred struct {
	Transport string `json:"transport"` // plaintext | tls-no-cert | tls-cert
	Issuer    string `json:"issuer"`    // ca | other-ca | self-signed | server-ca (the authority that issued the server's own certificate)
	Validity  string `json:"validity"`  // valid | expired | not-yet-valid
	EKU       string `json:"eku"`       // client | server-only | none
	CN        string `json:"cn"`
	SAN       string `json:"san"`
	// ExtraCN, if set, appends a second, self-signed non-CA certificate with this subject to the
	// presented chain (after the leaf that holds the key): the handshake ignores it, and so must
	// the identity extraction.
	ExtraCN string `json:"extra_cn,omitempty"`
	// Claim, if set, is a client name the caller merely asserts in request metadata; nothing in the statement lets such an assertion count.
	Claim string `json:"claim,omitempty"`
}

// Case is a set of calls, each on a fresh connection.
type Case struct {
	// Bundle chooses the daemon: false = the server's certificate is a single PEM issued by the
	// configured authority; true = it is issued by a separate server authority and configured as a
	// bundle (leaf followed by that authority's certificate), while the configured client
	// authority stays the same.
	Bundle bool   `json:"server_cert_bundle,omitempty"`
	Calls  []Call `json:"calls"`
}

// Call is one RPC.
type Call struct {
	Cred    Cred   `json:"cred"`
	Method  string `json:"method"`
	Account int    `json:"account"`
}

const (
	w1 = "Wallet A"
	w2 = "Wallet B"
)

type daemon struct {
	cl      *vkit.Cluster
	node    *vkit.Node
	addr    string
	ca      *vkit.CA
	otherCA *vkit.CA
	// serverCA issued the server's certificate (== ca unless bundle)
	serverCA *vkit.CA
	bundle   bool
	config   *vkit.PermConfig
	cancel   context.CancelFunc
	epoch    uint64
	mu       sync.Mutex
	methods  []string
}

var (
	dOnce [2]sync.Once
	ds    [2]*daemon
	dErrs [2]error
)

func lit(s string) *vkit.Pat { return vkit.LitPat(s) }

func setup(bundle bool) (*daemon, error) {
	idx := 0
	if bundle {
		idx = 1
	}
	dOnce[idx].Do(func() { ds[idx], dErrs[idx] = newDaemon(bundle) })

	return ds[idx], dErrs[idx]
}

func newDaemon(bundle bool) (d *daemon, dErr error) {
	func() {
		d = &daemon{epoch: 10, bundle: bundle}
		any := &vkit.Pat{Op: "star", Subs: []*vkit.Pat{{Op: "dot"}}}
		d.config = &vkit.PermConfig{Clients: map[string][]*vkit.PermEntry{
			"alice": {{Wallet: lit(w1), Ops: []string{"All"}}, {Wallet: lit(vkit.DWallet), Ops: []string{"All"}}},
			"bob":   {{Wallet: lit(w2), Account: lit("a"), Ops: []string{"Sign", "Access account"}}},
			"carol": {{Wallet: any, Ops: []string{"None"}}},
		}}
		wallets := []vkit.WalletSpec{
			{Name: w1, Accounts: []vkit.AccountSpec{{Name: "a", KeyIndex: 7001}, {Name: "b", KeyIndex: 7002}}},
			{Name: w2, Accounts: []vkit.AccountSpec{{Name: "a", KeyIndex: 7003}, {Name: "b", KeyIndex: 7004}}},
		}
		d.cl, dErr = vkit.NewCluster(vkit.ClusterOpts{IDs: []uint64{1, 2}, Permissions: d.config.ForDirk(), ExtraWallets: wallets})
		if dErr != nil {
			return
		}
		d.node = d.cl.Nodes[0]
		if d.ca, dErr = vkit.NewCA("verif authority"); dErr != nil {
			return
		}
		if d.otherCA, dErr = vkit.NewCA("some other authority"); dErr != nil {
			return
		}
		d.serverCA = d.ca
		if bundle {
			if d.serverCA, dErr = vkit.NewCA("server certificate authority"); dErr != nil {
				return
			}
		}
		serverCert, serverKey, err := d.serverCA.Leaf(vkit.LeafSpec{CN: d.node.Name, DNS: []string{d.node.Name, "localhost"}, IPs: []net.IP{net.ParseIP("127.0.0.1")},
			NotBefore: time.Now().Add(-time.Hour), NotAfter: time.Now().Add(12 * time.Hour), EKU: []x509.ExtKeyUsage{x509.ExtKeyUsageServerAuth, x509.ExtKeyUsageClientAuth}})
		if err != nil {
			dErr = err

			return
		}
		if bundle {
			serverCert = append(append([]byte{}, serverCert...), d.serverCA.CertPEM...)
		}
		l, err := net.Listen("tcp", "127.0.0.1:0")
		if err != nil {
			dErr = err

			return
		}
		d.addr = l.Addr().String()
		l.Close()
		ctx, cancel := context.WithCancel(context.Background())
		d.cancel = cancel
		st := d.node.Stack
		_, dErr = grpcapi.New(ctx,
			grpcapi.WithSigner(st.Signer), grpcapi.WithLister(st.Lister), grpcapi.WithProcess(d.node.Process),
			grpcapi.WithAccountManager(st.AccMgr), grpcapi.WithWalletManager(st.WalMgr), grpcapi.WithPeers(d.node.Peers),
			grpcapi.WithName(d.node.Name), grpcapi.WithID(d.node.ID), grpcapi.WithServerCert(serverCert), grpcapi.WithServerKey(serverKey),
			grpcapi.WithCACert(d.ca.CertPEM), grpcapi.WithListenAddress(d.addr))
		if dErr != nil {
			return
		}
		// every RPC method of every registered service, from the service descriptors
		for _, sd := range []grpc.ServiceDesc{pb.Signer_ServiceDesc, pb.Lister_ServiceDesc, pb.AccountManager_ServiceDesc, pb.WalletManager_ServiceDesc, pb.DKG_ServiceDesc} {
			for _, m := range sd.Methods {
				d.methods = append(d.methods, "/"+sd.ServiceName+"/"+m.MethodName)
			}
		}
		sort.Strings(d.methods)
		time.Sleep(50 * time.Millisecond)
	}()

	return d, dErr
}

func (d *daemon) accounts() []*vkit.AccountInfo {
	var out []*vkit.AccountInfo
	for _, a := range d.node.World.Accounts {
		if a.Wallet == w1 || a.Wallet == w2 {
			out = append(out, a)
		}
	}

	return out
}

func (d *daemon) dial(c Cred) (*grpc.ClientConn, error) {
	var extra []grpc.DialOption // (an :authority override is rejected by grpc-go when it differs from the TLS server name)
	if c.Transport == "plaintext" {
		return grpc.NewClient(d.addr, append(extra, grpc.WithTransportCredentials(insecure.NewCredentials()))...)
	}
	pool := x509.NewCertPool()
	pool.AppendCertsFromPEM(d.ca.CertPEM)
	pool.AppendCertsFromPEM(d.serverCA.CertPEM)
	cfg := &tls.Config{RootCAs: pool, ServerName: d.node.Name, MinVersion: tls.VersionTLS13}
	if c.Transport == "tls-cert" {
		ca := d.ca
		switch c.Issuer {
		case "other-ca":
			ca = d.otherCA
		case "server-ca":
			ca = d.serverCA
		}
		spec := vkit.LeafSpec{CN: c.CN, SelfSigned: c.Issuer == "self-signed", NotBefore: time.Now().Add(-time.Hour), NotAfter: time.Now().Add(time.Hour)}
		if c.SAN != "" {
			spec.DNS = []string{c.SAN}
		}
		switch c.Validity {
		case "expired":
			spec.NotBefore, spec.NotAfter = time.Now().Add(-48*time.Hour), time.Now().Add(-24*time.Hour)
		case "not-yet-valid":
			spec.NotBefore, spec.NotAfter = time.Now().Add(24*time.Hour), time.Now().Add(48*time.Hour)
		case "valid-in-a-minute":
			spec.NotBefore, spec.NotAfter = time.Now().Add(60*time.Second), time.Now().Add(time.Hour)
		case "expired-a-minute-ago":
			spec.NotBefore, spec.NotAfter = time.Now().Add(-time.Hour), time.Now().Add(-60*time.Second)
		}
		switch c.EKU {
		case "client":
			spec.EKU = []x509.ExtKeyUsage{x509.ExtKeyUsageClientAuth}
		case "server-only":
			spec.EKU = []x509.ExtKeyUsage{x509.ExtKeyUsageServerAuth}
		}
		certPEM, keyPEM, err := ca.Leaf(spec)
		if err != nil {
			return nil, err
		}
		pair, err := tls.X509KeyPair(certPEM, keyPEM)
		if err != nil {
			return nil, err
		}
		// An honest Go client only presents a certificate whose issuer is among the authorities the
		// server names in its CertificateRequest; an attacker's client presents its certificate
		// regardless, so the harness does too.
		if c.ExtraCN != "" {
			extraPEM, _, err := d.otherCA.Leaf(vkit.LeafSpec{CN: c.ExtraCN, SelfSigned: true, NotBefore: time.Now().Add(-time.Hour), NotAfter: time.Now().Add(time.Hour),
				EKU: []x509.ExtKeyUsage{x509.ExtKeyUsageClientAuth}})
			if err != nil {
				return nil, err
			}
			if blk, _ := pem.Decode(extraPEM); blk != nil {
				pair.Certificate = append(pair.Certificate, blk.Bytes)
			}
		}
		cfg.GetClientCertificate = func(*tls.CertificateRequestInfo) (*tls.Certificate, error) { return &pair, nil }
	}

	return grpc.NewClient(d.addr, append(extra, grpc.WithTransportCredentials(credentials.NewTLS(cfg)))...)
}

func root(a uint64, s byte) []byte {
	r := make([]byte, 32)
	binary.LittleEndian.PutUint64(r, a)
	r[31] = s

	return r
}

type probe struct {
	Export      map[string][3]int64
	Unlocked    map[string]bool
	Accounts    map[string]int
	Generations []string
}

func (d *daemon) probe() (*probe, error) {
	p := &probe{Unlocked: map[string]bool{}, Accounts: map[string]int{}}
	var err error
	if p.Export, err = d.node.Stack.Export(); err != nil {
		return nil, err
	}
	ctx := context.Background()
	for _, a := range d.accounts() {
		_, acc, err := d.node.Stack.Fetcher.FetchAccount(ctx, a.Path())
		if err != nil {
			return nil, err
		}
		u, _ := acc.(e2wtypes.AccountLocker).IsUnlocked(ctx)
		p.Unlocked[a.Path()] = u
	}
	for _, w := range []string{w1, w2, vkit.DWallet} {
		as, err := d.node.Stack.Fetcher.FetchAccounts(ctx, w)
		if err == nil {
			p.Accounts[w] = len(as)
		}
		wl, err := d.node.Stack.Fetcher.FetchWallet(ctx, w)
		if err == nil {
			u, _ := wl.(e2wtypes.WalletLocker).IsUnlocked(ctx)
			p.Unlocked["wallet:"+w] = u
		}
	}
	p.Generations = d.node.Process.VerifGenerations()
	sort.Strings(p.Generations)

	return p, nil
}

// request builds a valid request body for the method and returns (request, response holder, operation, wallet, account).
func (d *daemon) request(method string, acc *vkit.AccountInfo, n uint64) (proto.Message, proto.Message, string, string, string) {
	attDom := append([]byte{1, 0, 0, 0}, make([]byte, 28)...)
	genDom := append([]byte{2, 0, 0, 0}, make([]byte, 28)...)
	att := func() *pb.SignBeaconAttestationRequest {
		return &pb.SignBeaconAttestationRequest{Id: &pb.SignBeaconAttestationRequest_Account{Account: acc.Path()}, Domain: attDom,
			Data: &pb.AttestationData{Slot: n, BeaconBlockRoot: root(n, 1), Source: &pb.Checkpoint{Epoch: n - 1, Root: root(n, 2)}, Target: &pb.Checkpoint{Epoch: n, Root: root(n, 3)}}}
	}
	sgn := func() *pb.SignRequest {
		return &pb.SignRequest{Id: &pb.SignRequest_PublicKey{PublicKey: acc.PubKey}, Data: root(n, 7), Domain: genDom}
	}
	name := strings.TrimPrefix(method, "/v1.")
	switch name {
	case "Signer/Sign":
		return sgn(), &pb.SignResponse{}, "Sign", acc.Wallet, acc.Name
	case "Signer/Multisign":
		return &pb.MultisignRequest{Requests: []*pb.SignRequest{sgn()}}, &pb.MultisignResponse{}, "Sign", acc.Wallet, acc.Name
	case "Signer/SignBeaconAttestation":
		return att(), &pb.SignResponse{}, "Sign beacon attestation", acc.Wallet, acc.Name
	case "Signer/SignBeaconAttestations":
		return &pb.SignBeaconAttestationsRequest{Requests: []*pb.SignBeaconAttestationRequest{att()}}, &pb.MultisignResponse{}, "Sign beacon attestation", acc.Wallet, acc.Name
	case "Signer/SignBeaconProposal":
		return &pb.SignBeaconProposalRequest{Id: &pb.SignBeaconProposalRequest_Account{Account: acc.Path()}, Domain: make([]byte, 32),
			Data: &pb.BeaconBlockHeader{Slot: n, ParentRoot: root(n, 4), StateRoot: root(n, 5), BodyRoot: root(n, 6)}}, &pb.SignResponse{}, "Sign beacon proposal", acc.Wallet, acc.Name
	case "Lister/ListAccounts":
		return &pb.ListAccountsRequest{Paths: []string{w1, w2, vkit.DWallet}}, &pb.ListAccountsResponse{}, "Access account", "", ""
	case "AccountManager/Unlock":
		return &pb.UnlockAccountRequest{Account: acc.Path(), Passphrase: []byte(vkit.DefaultPassphrase)}, &pb.UnlockAccountResponse{}, "Unlock account", acc.Wallet, acc.Name
	case "AccountManager/Lock":
		return &pb.LockAccountRequest{Account: acc.Path()}, &pb.LockAccountResponse{}, "Lock account", acc.Wallet, acc.Name
	case "AccountManager/Generate":
		return &pb.GenerateRequest{Account: fmt.Sprintf("%s/gen%d", acc.Wallet, n), Passphrase: []byte("pass"), Participants: 1, SigningThreshold: 1}, &pb.GenerateResponse{}, "Create account", acc.Wallet, fmt.Sprintf("gen%d", n)
	case "WalletManager/Unlock":
		return &pb.UnlockWalletRequest{Wallet: acc.Wallet}, &pb.UnlockWalletResponse{}, "Unlock wallet", acc.Wallet, ""
	case "WalletManager/Lock":
		return &pb.LockWalletRequest{Wallet: acc.Wallet}, &pb.LockWalletResponse{}, "Lock wallet", acc.Wallet, ""
	case "DKG/Prepare":
		return &pb.PrepareRequest{Account: fmt.Sprintf("%s/dkg%d", vkit.DWallet, n), Threshold: 2, Participants: []*pb.Endpoint{{Id: 1, Name: vkit.NodeName(0), Port: 9000}, {Id: 2, Name: vkit.NodeName(1), Port: 9001}}}, &emptypb.Empty{}, "dkg", "", ""
	case "DKG/Execute":
		return &pb.ExecuteRequest{Account: vkit.DWallet + "/dkgx"}, &emptypb.Empty{}, "dkg", "", ""
	case "DKG/Commit":
		return &pb.CommitRequest{Account: vkit.DWallet + "/dkgx", ConfirmationData: make([]byte, 32)}, &pb.CommitResponse{}, "dkg", "", ""
	case "DKG/Abort":
		return &pb.AbortRequest{Account: vkit.DWallet + "/dkgx"}, &emptypb.Empty{}, "dkg", "", ""
	case "DKG/Contribute":
		var sks [2]bls.SecretKey
		sks[0].SetByCSPRNG()
		sks[1].SetByCSPRNG()
		var sh bls.SecretKey
		_ = sh.Set(sks[:], vkit.BLSID(1))

		return &pb.ContributeRequest{Account: vkit.DWallet + "/dkgx", Secret: sh.Serialize(), VerificationVector: [][]byte{sks[0].GetPublicKey().Serialize(), sks[1].GetPublicKey().Serialize()}}, &pb.ContributeResponse{}, "dkg", "", ""
	}

	return nil, nil, "", "", ""
}

// valuable extracts what a response gives away: signatures, account information, generated keys, shares.
func valuable(resp proto.Message) (sigs int, accounts []string, other string) {
	switch r := resp.(type) {
	case *pb.SignResponse:
		if len(r.GetSignature()) > 0 || r.GetState() == pb.ResponseState_SUCCEEDED {
			sigs++
		}
	case *pb.MultisignResponse:
		for _, x := range r.GetResponses() {
			if len(x.GetSignature()) > 0 || x.GetState() == pb.ResponseState_SUCCEEDED {
				sigs++
			}
		}
	case *pb.ListAccountsResponse:
		for _, a := range r.GetAccounts() {
			accounts = append(accounts, a.GetName())
		}
		for _, a := range r.GetDistributedAccounts() {
			accounts = append(accounts, a.GetName())
		}
	case *pb.GenerateResponse:
		if len(r.GetPublicKey()) > 0 || r.GetState() == pb.ResponseState_SUCCEEDED {
			other = "generated key"
		}
	case *pb.UnlockAccountResponse:
		if r.GetState() == pb.ResponseState_SUCCEEDED {
			other = "unlocked"
		}
	case *pb.LockAccountResponse:
		if r.GetState() == pb.ResponseState_SUCCEEDED {
			other = "locked"
		}
	case *pb.UnlockWalletResponse:
		if r.GetState() == pb.ResponseState_SUCCEEDED {
			other = "unlocked"
		}
	case *pb.LockWalletResponse:
		if r.GetState() == pb.ResponseState_SUCCEEDED {
			other = "locked"
		}
	case *pb.ContributeResponse:
		if len(r.GetSecret()) > 0 {
			other = "share"
		}
	case *pb.CommitResponse:
		if len(r.GetPublicKey()) > 0 {
			other = "commit"
		}
	}

	return
}

func class(c Cred, d *daemon) string {
	fromCA := c.Issuer == "ca" || (c.Issuer == "server-ca" && d.serverCA == d.ca)
	switch {
	case c.Transport != "tls-cert", !fromCA:
		return "must-refuse"
	case c.Validity != "valid", c.EKU == "server-only":
		return "either-way"
	}

	return "accepted"
}

type outcome struct {
	mustRefuse, mustRefusePermittedCN, eitherServed, acceptedServed, cnSanDiffer, served, extraServed, claimServed int
	trace                                                                                                          []string
}

func run(c *Case) (*outcome, *vkit.Violation, error) {
	d, err := setup(c.Bundle)
	if err != nil {
		return nil, nil, err
	}
	d.mu.Lock()
	defer d.mu.Unlock()
	o := &outcome{}
	accs := d.accounts()
	for ci, call := range c.Calls {
		d.epoch += 2
		acc := accs[call.Account%len(accs)]
		req, resp, op, wallet, account := d.request(call.Method, acc, d.epoch)
		if req == nil {
			return o, nil, fmt.Errorf("no request body for %s", call.Method)
		}
		before, err := d.probe()
		if err != nil {
			return o, nil, err
		}
		conn, err := d.dial(call.Cred)
		if err != nil {
			return o, nil, err
		}
		ctx, cancel := context.WithTimeout(context.Background(), 5*time.Second)
		if cl := call.Cred.Claim; cl != "" {
			ctx = metadata.AppendToOutgoingContext(ctx, "x-client-name", cl, "client-name", cl, "client", cl, "x-forwarded-client-cert", "Subject=\"CN="+cl+"\"", "x-forwarded-for", "127.0.0.1", "authorization", "Bearer "+cl)
		}
		rpcErr := conn.Invoke(ctx, call.Method, req, resp)
		cancel()
		conn.Close()
		after, err := d.probe()
		if err != nil {
			return o, nil, err
		}
		cls := class(call.Cred, d)
		where := fmt.Sprintf("call %d: %s with credential %+v", ci, call.Method, call.Cred)
		o.trace = append(o.trace, fmt.Sprintf("%s %s cn=%q -> err=%v", cls, strings.TrimPrefix(call.Method, "/v1."), call.Cred.CN, rpcErr != nil))
		if cls == "must-refuse" {
			o.mustRefuse++
			if call.Cred.CN == "alice" || call.Cred.CN == "bob" || call.Cred.CN == vkit.NodeName(1) {
				o.mustRefusePermittedCN++
			}
			if rpcErr == nil {
				sigs, listed, other := valuable(resp)
				if sigs > 0 || len(listed) > 0 || other != "" {
					return o, vkit.Violf("served-without-authority-certificate", "%s: the response carries %d signatures, accounts %v, %s", where, sigs, listed, other), nil
				}
			}
			if !reflect.DeepEqual(before, after) {
				return o, vkit.Violf("state-changed-without-authority-certificate", "%s: state went from %+v to %+v", where, before, after), nil
			}

			continue
		}
		if rpcErr != nil {
			if op == "dkg" || cls == "either-way" {
				continue
			}
			// an accepted credential was turned away at the transport: harness problem unless persistent
			continue
		}
		// a response came back: every decision must follow the verified subject CN
		o.served++
		if cls == "either-way" {
			o.eitherServed++
		} else {
			o.acceptedServed++
		}
		if (call.Cred.SAN != "" && call.Cred.SAN != call.Cred.CN) || (call.Cred.ExtraCN != "" && call.Cred.ExtraCN != call.Cred.CN) {
			o.cnSanDiffer++
		}
		if call.Cred.ExtraCN != "" && call.Cred.ExtraCN != call.Cred.CN {
			o.extraServed++
		}
		if call.Cred.Claim != "" && call.Cred.Claim != call.Cred.CN {
			o.claimServed++
		}
		sigs, listed, other := valuable(resp)
		cn := call.Cred.CN
		if op == "dkg" {
			// the receiver answers without error only to peers
			isPeer := cn == vkit.NodeName(0) || cn == vkit.NodeName(1) // exact names only
			if !isPeer {
				return o, vkit.Violf("dkg-message-accepted-from-non-peer-cn", "%s: answered without error although the certificate's subject %q is not a peer", where, cn), nil
			}

			continue
		}
		if op == "Access account" {
			for _, full := range listed {
				parts := strings.SplitN(full, "/", 2)
				if len(parts) != 2 || !d.config.Allowed(cn, parts[0], parts[1], op) {
					return o, vkit.Violf("decision-not-by-subject-cn.list", "%s: account %q was listed although subject %q may not access it", where, full, cn), nil
				}
			}

			continue
		}
		if (sigs > 0 || other != "") && !d.config.Allowed(cn, wallet, account, op) {
			return o, vkit.Violf("decision-not-by-subject-cn", "%s: %q on %s/%s was carried out although the permissions of subject %q refuse it", where, op, wallet, account, cn), nil
		}
	}

	return o, nil, nil
}

func genCred(t *rapid.T) Cred {
	c := Cred{
		Transport: rapid.SampledFrom([]string{"plaintext", "tls-no-cert", "tls-cert", "tls-cert", "tls-cert", "tls-cert", "tls-cert"}).Draw(t, "transport"),
		Issuer:    rapid.SampledFrom([]string{"ca", "ca", "ca", "other-ca", "self-signed", "server-ca"}).Draw(t, "issuer"),
		Validity:  rapid.SampledFrom([]string{"valid", "valid", "valid", "valid", "expired", "not-yet-valid", "valid-in-a-minute", "expired-a-minute-ago"}).Draw(t, "validity"),
		EKU:       rapid.SampledFrom([]string{"client", "client", "client", "server-only", "none"}).Draw(t, "eku"),
		CN:        rapid.SampledFrom([]string{"alice", "alice", "alice", "bob", "carol", vkit.NodeName(1), "mallory", "", "Alice", "alice ", "ALICE", strings.ToUpper(vkit.NodeName(1)), vkit.NodeName(1) + "0"}).Draw(t, "cn"),
		SAN:       rapid.SampledFrom([]string{"", "", "alice", "bob", vkit.NodeName(1), "mallory"}).Draw(t, "san"),
	}
	if rapid.IntRange(0, 3).Draw(t, "claim") == 0 {
		c.Claim = rapid.SampledFrom([]string{"alice", "bob", vkit.NodeName(1)}).Draw(t, "claimed")
	}
	if c.Transport == "tls-cert" && rapid.IntRange(0, 3).Draw(t, "extra") == 0 {
		c.ExtraCN = rapid.SampledFrom([]string{"alice", "bob", vkit.NodeName(1)}).Draw(t, "extra_cn")
	}

	return c
}

// TestC19 decides C19.
func TestC19(t *testing.T) {
	defer vkit.Flush()
	dd, err := setup(false)
	if err != nil {
		t.Fatalf("INFRA: %v", err)
	}
	if _, err := setup(true); err != nil {
		t.Fatalf("INFRA: %v", err)
	}
	for _, r := range vkit.ReplayFiles("TestC19") {
		var c Case
		if err := json.Unmarshal(r.Case, &c); err != nil {
			t.Fatalf("bad replay case: %v", err)
		}
		o, v, err := run(&c)
		if err != nil {
			t.Fatalf("replay infrastructure error: %v", err)
		}
		t.Logf("replay: trace=%v", o.trace)
		vkit.Report(t, "C19", "TestC19", &c, v)
	}
	if vkit.ReplayOnly() {
		return
	}
	rapid.Check(t, func(rt *rapid.T) {
		c := &Case{Bundle: rapid.Bool().Draw(rt, "server_cert_bundle")}
		n := rapid.IntRange(1, 4).Draw(rt, "ncalls")
		for i := 0; i < n; i++ {
			c.Calls = append(c.Calls, Call{Cred: genCred(rt), Method: rapid.SampledFrom(dd.methods).Draw(rt, "method"), Account: rapid.IntRange(0, 3).Draw(rt, "account")})
		}
		stop := vkit.Watch(c, 180*time.Second)
		o, v, err := run(c)
		stop()
		if err != nil {
			rt.Fatalf("INFRA: %v", err)
		}
		vkit.S.Eval()
		vkit.S.ClassN("calls-that-must-be-refused", o.mustRefuse)
		vkit.S.ClassN("must-refuse-calls-bearing-a-permitted-name", o.mustRefusePermittedCN)
		vkit.S.ClassN("accepted-credential-served", o.acceptedServed)
		vkit.S.ClassN("either-way-credential-served", o.eitherServed)
		vkit.S.ClassN("served-calls-with-cn-and-san-differing", o.cnSanDiffer)
		vkit.S.ClassN("served-calls-with-an-extra-certificate-naming-someone-else", o.extraServed)
		vkit.S.ClassN("served-calls-claiming-another-name-in-metadata", o.claimServed)
		for _, call := range c.Calls {
			vkit.S.Class("method:" + strings.TrimPrefix(call.Method, "/v1."))
			vkit.S.Class("cred:" + call.Cred.Transport + "/" + call.Cred.Issuer)
			if c.Bundle && call.Cred.Transport == "tls-cert" && call.Cred.Issuer == "server-ca" {
				vkit.S.Class("certificate-from-the-server-bundle's-authority-which-is-not-the-configured-one")
			}
		}
		nt := o.mustRefusePermittedCN > 0 || o.cnSanDiffer > 0
		if nt {
			vkit.S.Nontrivial(c)
		}
		vkit.S.Sample(map[string]any{"case": c, "trace": o.trace}, nt && o.acceptedServed > 0)
		vkit.Report(rt, "C19", "TestC19", c, v)
	})
}
