// Package c17 decides C17: key-generation sessions follow a strict one-per-account lifecycle.
package c17

import (
	"encoding/json"
	"fmt"
	"sort"
	"testing"
	"time"

	"github.com/herumi/bls-eth-go-binary/bls"
	pb "github.com/wealdtech/eth2-signer-api/pb/v1"
	"google.golang.org/protobuf/proto"
	"pgregory.net/rapid"

	"verif/harness/vkit"
)

// Op is one event.
type Op struct {
	Kind string `json:"kind"` // prepare | execute | contribute | contribute-all | commit | abort | advance
	Name string `json:"name,omitempty"`
	Peer int    `json:"peer,omitempty"` // contribute: index into the lower-id participants
	T    uint32 `json:"t,omitempty"`
	NP   int    `json:"np,omitempty"` // prepare: number of participants
}

// Case is an event sequence for one instance.
type Case struct {
	SelfPos int  `json:"self_pos"` // 0 = lowest id, 1 = middle, 2 = highest among participants
	Ops     []Op `json:"ops"`
}

var allIDs = []uint64{10, 20, 30, 40, 50}

const timeout = time.Hour

type session struct {
	age          time.Duration
	contributors map[uint64]bool
	t            uint32
	participants []uint64
	polys        map[uint64][]bls.SecretKey // simulated peers' polynomials
}

func selfID(c *Case) uint64 {
	switch c.SelfPos {
	case 0:
		return 10
	case 1:
		return 30
	}

	return 50
}

func genOps(t *rapid.T) []Op {
	names := []string{"A", "B", "C"}
	var ops []Op
	n := rapid.IntRange(1, 30).Draw(t, "nops")
	for len(ops) < n {
		name := rapid.SampledFrom(names).Draw(t, "name")
		switch k := rapid.IntRange(0, 99).Draw(t, "kind"); {
		case k < 22:
			np := rapid.IntRange(2, 5).Draw(t, "np")
			ops = append(ops, Op{Kind: "prepare", Name: name, NP: np, T: uint32(rapid.IntRange(np/2+1, np).Draw(t, "t"))})
		case k < 36:
			ops = append(ops, Op{Kind: "execute", Name: name})
		case k < 46:
			ops = append(ops, Op{Kind: "contribute", Name: name, Peer: rapid.IntRange(0, 3).Draw(t, "peer")})
		case k < 58:
			ops = append(ops, Op{Kind: "contribute-all", Name: name})
		case k < 74:
			ops = append(ops, Op{Kind: "commit", Name: name})
		case k < 84:
			ops = append(ops, Op{Kind: "abort", Name: name})
		case k < 92:
			ops = append(ops, Op{Kind: "advance", NP: rapid.SampledFrom([]int{25, 50, 75}).Draw(t, "minutes")})
		default:
			// the whole happy path, so that deep states are common
			np := rapid.IntRange(2, 5).Draw(t, "np")
			ops = append(ops, Op{Kind: "prepare", Name: name, NP: np, T: uint32(np/2 + 1)}, Op{Kind: "execute", Name: name}, Op{Kind: "contribute-all", Name: name}, Op{Kind: "commit", Name: name})
		}
	}

	return ops
}

type outcome struct {
	refusals     int
	reprepared   bool
	commits      int
	expired      int
	steps        []string
	lifecycleRef map[string]bool
}

func run(c *Case) (*outcome, *vkit.Violation, error) {
	self := selfID(c)
	// one real instance with all five ids configured as peers; the harness plays the other four
	cl, err := vkit.NewClusterWithPeers(vkit.ClusterOpts{IDs: []uint64{self}, Timeout: timeout}, allIDs)
	if err != nil {
		return nil, nil, err
	}
	defer cl.Close()
	node := cl.Nodes[0]
	o := &outcome{lifecycleRef: map[string]bool{}}

	sessions := map[string]*session{}
	accounts := map[string]bool{}
	everRefused := map[string]bool{}
	peerName := func(id uint64) string {
		for i, x := range allIDs {
			if x == id {
				return vkit.NodeName(i)
			}
		}

		return "?"
	}
	active := func(name string) *session {
		s := sessions[name]
		if s == nil {
			return nil
		}
		if s.age > timeout {
			delete(sessions, name)
			o.expired++

			return nil
		}

		return s
	}
	// simulated peers answer the instance's outgoing contributions validly
	var current *session
	cl.Net.Intercept = func(m *vkit.Msg) (proto.Message, error, bool) {
		if m.From != self {
			return nil, nil, false
		}
		if m.Kind != "contribute" || current == nil {
			return nil, fmt.Errorf("simulated peer does not expect %s", m.Kind), true
		}
		sks := current.polys[m.To]
		var sh bls.SecretKey
		if err := sh.Set(sks, vkit.BLSID(self)); err != nil {
			return nil, err, true
		}
		vvec := make([][]byte, len(sks))
		for i := range sks {
			vvec[i] = sks[i].GetPublicKey().Serialize()
		}

		return &pb.ContributeResponse{Secret: sh.Serialize(), VerificationVector: vvec}, nil, true
	}
	deliver := func(kind string, from uint64, req proto.Message) error {
		name := peerName(from)
		_, err := cl.Net.Deliver(&vkit.Msg{Kind: kind, From: from, To: self, Req: req, FromName: &name})

		return err
	}
	lower := func(s *session) []uint64 {
		var out []uint64
		for _, id := range s.participants {
			if id < self {
				out = append(out, id)
			}
		}
		sort.Slice(out, func(i, j int) bool { return out[i] < out[j] })

		return out
	}
	for si, op := range c.Ops {
		account := vkit.DWallet + "/" + op.Name
		where := fmt.Sprintf("step %d %+v (instance id %d)", si, op, self)
		expect := "" // ok | err | either
		var got error
		switch op.Kind {
		case "advance":
			d := time.Duration(op.NP) * time.Minute
			if d == 0 {
				d = 25 * time.Minute
			}
			node.Process.VerifAgeGenerations(d)
			for _, s := range sessions {
				s.age += d
			}
			o.steps = append(o.steps, "advance")

			continue
		case "prepare":
			// participants: the instance itself plus NP-1 others, spread below and above it
			parts := []uint64{self}
			for _, id := range allIDs {
				if id != self && len(parts) < op.NP {
					parts = append(parts, id)
				}
			}
			sort.Slice(parts, func(i, j int) bool { return parts[i] < parts[j] })
			eps := make([]*pb.Endpoint, len(parts))
			for i, id := range parts {
				eps[i] = &pb.Endpoint{Id: id, Name: peerName(id), Port: 9000}
			}
			wasActive := active(op.Name) != nil
			initiator := parts[0]
			if initiator == self {
				initiator = parts[1]
			}
			got = deliver("prepare", initiator, &pb.PrepareRequest{Account: account, Threshold: op.T, Participants: eps, Passphrase: []byte(vkit.DefaultPassphrase)})
			if wasActive {
				expect = "err"
				o.lifecycleRef["second-prepare"] = true
			} else {
				expect = "ok"
				s := &session{contributors: map[uint64]bool{self: true}, t: op.T, participants: parts, polys: map[uint64][]bls.SecretKey{}}
				for _, id := range parts {
					if id == self {
						continue
					}
					sks := make([]bls.SecretKey, op.T)
					for i := range sks {
						sks[i].SetByCSPRNG()
					}
					s.polys[id] = sks
				}
				if got == nil {
					sessions[op.Name] = s
					if everRefused[op.Name] {
						o.reprepared = true
					}
				}
			}
		case "execute":
			s := active(op.Name)
			current = s
			from := allIDs[0]
			if from == self {
				from = allIDs[1]
			}
			got = deliver("execute", from, &pb.ExecuteRequest{Account: account})
			current = nil
			switch {
			case s == nil:
				expect = "err"
				o.lifecycleRef["execute-without-session"] = true
			default:
				fresh := true
				for _, id := range s.participants {
					if id > self && s.contributors[id] {
						fresh = false
					}
				}
				if fresh {
					expect = "ok"
					if got == nil {
						for _, id := range s.participants {
							if id > self {
								s.contributors[id] = true
							}
						}
					}
				} else {
					expect = "either" // a second execute on an active session: the statement leaves it open
				}
			}
		case "contribute", "contribute-all":
			s := active(op.Name)
			var from []uint64
			if s != nil {
				lo := lower(s)
				if op.Kind == "contribute-all" {
					from = lo
				} else if len(lo) > 0 {
					from = []uint64{lo[op.Peer%len(lo)]}
				}
			}
			if s == nil {
				// a contribution for a generation that is not active, from the lowest other peer
				p := allIDs[0]
				if p == self {
					p = allIDs[1]
				}
				sks := make([]bls.SecretKey, 2)
				for i := range sks {
					sks[i].SetByCSPRNG()
				}
				var sh bls.SecretKey
				_ = sh.Set(sks, vkit.BLSID(self))
				got = deliver("contribute", p, &pb.ContributeRequest{Account: account, Secret: sh.Serialize(), VerificationVector: [][]byte{sks[0].GetPublicKey().Serialize(), sks[1].GetPublicKey().Serialize()}})
				expect = "err"
				o.lifecycleRef["contribute-without-session"] = true

				break
			}
			if len(from) == 0 {
				o.steps = append(o.steps, "skip")

				continue
			}
			expect = "ok"
			for _, p := range from {
				sks := s.polys[p]
				var sh bls.SecretKey
				_ = sh.Set(sks, vkit.BLSID(self))
				vvec := make([][]byte, len(sks))
				for i := range sks {
					vvec[i] = sks[i].GetPublicKey().Serialize()
				}
				repeat := s.contributors[p]
				e := deliver("contribute", p, &pb.ContributeRequest{Account: account, Secret: sh.Serialize(), VerificationVector: vvec})
				if repeat {
					expect = "either"
				} else if e == nil {
					s.contributors[p] = true
				}
				if e != nil {
					got = e
				}
			}
		case "commit":
			s := active(op.Name)
			from := allIDs[0]
			if from == self {
				from = allIDs[1]
			}
			got = deliver("commit", from, &pb.CommitRequest{Account: account, ConfirmationData: make([]byte, 32)})
			switch {
			case s == nil:
				expect = "err"
				o.lifecycleRef["commit-without-session"] = true
			case len(s.contributors) != len(s.participants):
				expect = "err"
				o.lifecycleRef["commit-before-all-contributions"] = true
			case accounts[op.Name]:
				expect = "err"
			default:
				expect = "ok"
				if got == nil {
					delete(sessions, op.Name)
					accounts[op.Name] = true
					o.commits++
				}
			}
		case "abort":
			s := active(op.Name)
			from := allIDs[0]
			if from == self {
				from = allIDs[1]
			}
			got = deliver("abort", from, &pb.AbortRequest{Account: account})
			if s == nil {
				expect = "err"
				o.lifecycleRef["abort-without-session"] = true
			} else {
				expect = "ok"
				if got == nil {
					delete(sessions, op.Name)
				}
			}
		}
		res := "ok"
		if got != nil {
			res = "err"
		}
		o.steps = append(o.steps, op.Kind+":"+res)
		if expect == "err" {
			o.refusals++
			everRefused[op.Name] = true
		}
		if len(cl.Net.HookPanics) > 0 {
			return o, nil, fmt.Errorf("a hook of the check itself panicked: %s", cl.Net.HookPanics[0])
		}
		if len(cl.Net.Panics) > 0 {
			return o, vkit.Violf("instance-crashed", "%s: %v", where, cl.Net.Panics), nil
		}
		if expect != "either" && expect != res {
			detail := ""
			if got != nil {
				detail = got.Error()
			}

			return o, vkit.Violf("lifecycle."+op.Kind+"-expected-"+expect, "%s: the lifecycle model expects %s, the instance answered %s (%s); steps so far %v", where, expect, res, detail, o.steps), nil
		}
		// the account exists exactly when the model says a commit succeeded
		for _, nm := range []string{"A", "B", "C"} {
			inStore, _ := node.HasAccount(nm)
			if inStore != accounts[nm] {
				return o, vkit.Violf("lifecycle.account-presence", "%s: account %s present=%v but the model says %v; steps so far %v", where, nm, inStore, accounts[nm], o.steps), nil
			}
		}
	}

	return o, nil, nil
}

// TestC17 decides C17.
func TestC17(t *testing.T) {
	defer vkit.Flush()
	for _, r := range vkit.ReplayFiles("TestC17") {
		var c Case
		if err := json.Unmarshal(r.Case, &c); err != nil {
			t.Fatalf("bad replay case: %v", err)
		}
		o, v, err := run(&c)
		if err != nil {
			t.Fatalf("replay infrastructure error: %v", err)
		}
		t.Logf("replay: steps=%v", o.steps)
		vkit.Report(t, "C17", "TestC17", &c, v)
	}
	if vkit.ReplayOnly() {
		return
	}
	rapid.Check(t, func(rt *rapid.T) {
		c := &Case{SelfPos: rapid.IntRange(0, 2).Draw(rt, "self_pos"), Ops: genOps(rt)}
		stop := vkit.Watch(c, 120*time.Second)
		o, v, err := run(c)
		stop()
		if err != nil {
			rt.Fatalf("INFRA: %v", err)
		}
		vkit.S.Eval()
		vkit.S.ClassN("lifecycle-refusals", o.refusals)
		vkit.S.ClassN("successful-commits", o.commits)
		vkit.S.ClassN("sessions-expired", o.expired)
		vkit.S.Class(fmt.Sprintf("self-position-%d", c.SelfPos))
		for k := range o.lifecycleRef {
			vkit.S.Class("refusal:" + k)
		}
		if o.reprepared {
			vkit.S.Class("re-prepare-after-refusal")
		}
		nt := o.refusals > 0 && o.reprepared
		if nt {
			vkit.S.Nontrivial(c)
		}
		vkit.S.Sample(map[string]any{"case": c, "steps": o.steps}, nt && o.commits > 0)
		vkit.Report(rt, "C17", "TestC17", c, v)
	})
}
