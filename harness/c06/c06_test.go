// Package c06 decides C06: a response carries a signature iff its state is SUCCEEDED, and a fault at
// any dependency on the way to position i leaves position i without a signature.
package c06

import (
	"context"
	"encoding/binary"
	"encoding/json"
	"errors"
	"fmt"
	"os"
	"strings"
	"sync"
	"testing"
	"time"

	"github.com/attestantio/dirk/rules"
	standardrules "github.com/attestantio/dirk/rules/standard"
	"github.com/attestantio/dirk/services/checker"
	"github.com/attestantio/dirk/services/fetcher"
	"github.com/attestantio/dirk/services/ruler"
	"github.com/attestantio/dirk/services/unlocker"
	"github.com/attestantio/dirk/util/verifhook"
	"github.com/rs/zerolog"
	"pgregory.net/rapid"

	"verif/harness/vkit"
)

const (
	nGood   = 20 // accounts whose passphrase the unlocker knows
	nLocked = 4  // accounts whose passphrase it does not know
	client  = "client1"
)

var (
	once    sync.Once
	world   *vkit.World
	initErr error
)

func setup() error {
	once.Do(func() {
		ws := vkit.WalletSpec{Name: "Wallet 1"}
		for i := 0; i < nGood; i++ {
			ws.Accounts = append(ws.Accounts, vkit.AccountSpec{Name: fmt.Sprintf("Account %d", i), KeyIndex: i})
		}
		for i := 0; i < nLocked; i++ {
			ws.Accounts = append(ws.Accounts, vkit.AccountSpec{Name: fmt.Sprintf("Locked %d", i), KeyIndex: nGood + i, Passphrase: "a passphrase nobody configured"})
		}
		world, initErr = vkit.NewWorld([]vkit.WalletSpec{ws})
	})

	return initErr
}

// Fault is one planned fault.
type Fault struct {
	Site string `json:"site"`
	Pos  int    `json:"pos"`            // batch position the fault is aimed at (-1 = whole request)
	Mode string `json:"mode,omitempty"` // site-specific
}

// Case is one request with a fault plan.
type Case struct {
	Kind    string  `json:"kind"` // sign | multisign | attest | attests | propose
	ViaGRPC bool    `json:"via_grpc"`
	N       int     `json:"n"`
	ByKey   []bool  `json:"by_key"`
	Start   int     `json:"key_start"`
	Faults  []Fault `json:"faults"`
	// Denied lists batch positions whose request the slashing rule legitimately refuses (the key
	// signed the same target just before): mixed verdicts next to a fault.
	Denied []int `json:"denied,omitempty"`
}

// Sites lists every fault site with the request kinds it applies to.
var Sites = []struct {
	Site  string
	Modes []string
	Kinds string // which kinds touch this site
	Whole bool   // request-wide (Pos ignored)
}{
	{"fetch", nil, "sign multisign attest attests propose", false},
	{"check", nil, "sign multisign attest attests propose", false},
	{"isunlocked-err", nil, "sign multisign attest attests propose", false},
	{"unlock-err", nil, "sign multisign attest attests propose", false},
	{"unlock-false", nil, "sign multisign attest attests propose", false},
	{"locked-unknown-passphrase", nil, "sign multisign attest attests propose", false},
	{"rules", []string{"FAILED", "UNKNOWN", "DENIED"}, "sign multisign attest attests propose", false},
	{"ruler", []string{"FAILED", "UNKNOWN", "DENIED"}, "sign multisign attest attests propose", false},
	{"rules-list", []string{"short", "all-unknown"}, "attests", true},
	{"store-fetch-err", nil, "attest attests propose", false},
	{"store-store-err", nil, "attest propose", false},
	{"store-batch-err", nil, "attests", true},
	{"record-undecodable", []string{"version-only", "wrong-length", "random", "truncated-gob", "zero-length-gob"}, "attest attests propose", false},
	{"store-closed-before", nil, "attest attests propose", true},
	{"store-closed-at-fetch", nil, "attest attests propose", true},
	{"store-closed-at-store", nil, "attest attests propose", true},
	{"hash-fail", []string{"31", "33"}, "sign multisign attest attests propose", false},
	{"sign-err", nil, "sign multisign attest attests propose", false},
	{"non-signer", nil, "sign multisign attest attests propose", false},
}

func applies(site string, kind string) bool {
	for _, s := range Sites {
		if s.Site == site {
			for _, k := range strings.Fields(s.Kinds) {
				if k == kind {
					return true
				}
			}
		}
	}

	return false
}

func rootOf(salt uint64, b byte) []byte {
	r := make([]byte, 32)
	binary.LittleEndian.PutUint64(r, salt)
	r[31] = b

	return r
}

func domainOf(prefix byte, n int) []byte {
	d := make([]byte, n)
	d[0] = prefix
	if n > 9 {
		d[9] = 0x77
	}

	return d
}

type reqData struct {
	att  *vkit.Att
	prop *vkit.Prop
	gen  *vkit.Generic
}

type result struct {
	rs    []vkit.Res
	fired []string
}

// execute runs the case's request on a fresh stack, with or without the fault plan.
func execute(c *Case, withFaults bool) (*result, []reqData, []*vkit.AccountInfo, error) {
	if err := setup(); err != nil {
		return nil, nil, nil, err
	}
	plan := vkit.NewFaultPlan()
	accs := make([]*vkit.AccountInfo, c.N)
	for i := 0; i < c.N; i++ {
		accs[i] = world.Accounts[(c.Start+i)%nGood]
	}
	data := make([]reqData, c.N)
	for i := 0; i < c.N; i++ {
		salt := uint64(i + 1)
		switch c.Kind {
		case "attest", "attests":
			data[i].att = &vkit.Att{Slot: salt, BlockRoot: rootOf(salt, 1), SrcEpoch: 3, SrcRoot: rootOf(salt, 2), TgtEpoch: 4, TgtRoot: rootOf(salt, 3), Domain: domainOf(1, 32)}
		case "propose":
			data[i].prop = &vkit.Prop{Slot: 9, ProposerIndex: salt, ParentRoot: rootOf(salt, 4), StateRoot: rootOf(salt, 5), BodyRoot: rootOf(salt, 6), Domain: domainOf(0, 32)}
		default:
			data[i].gen = &vkit.Generic{Data: rootOf(salt, 7), Domain: domainOf(2, 32)}
		}
	}
	dir, err := os.MkdirTemp("", "verif-c06-")
	if err != nil {
		return nil, nil, nil, err
	}
	defer os.RemoveAll(dir)

	var closeAt string
	storeCloses := false
	prewrite := map[string][]byte{}
	if withFaults {
		for _, f := range c.Faults {
			if !applies(f.Site, c.Kind) {
				continue
			}
			pos := f.Pos
			if pos < 0 || pos >= c.N {
				pos = 0
			}
			switch f.Site {
			case "locked-unknown-passphrase":
				accs[pos] = world.Accounts[nGood+(pos%nLocked)]
			case "hash-fail":
				n := 31
				if f.Mode == "33" {
					n = 33
				}
				switch {
				case data[pos].att != nil:
					data[pos].att.Domain = domainOf(1, n)
				case data[pos].prop != nil:
					data[pos].prop.Domain = domainOf(0, n)
				default:
					data[pos].gen.Domain = domainOf(2, n)
				}
			}
		}
		for _, f := range c.Faults {
			if !applies(f.Site, c.Kind) {
				continue
			}
			pos := f.Pos
			if pos < 0 || pos >= c.N {
				pos = 0
			}
			key := fmt.Sprintf("%x", accs[pos].PubKey)
			switch f.Site {
			case "locked-unknown-passphrase", "hash-fail":
				plan.Mark(f.Site + " " + key + " " + f.Mode)
			case "check":
				plan.Add("check", accs[pos].Path(), "")
			case "rules-list":
				mode := f.Mode
				if mode == "short" {
					n := pos
					if n < 1 {
						n = 1
					}
					mode = fmt.Sprintf("short:%d", n)
				}
				plan.Add("rules-list", "*", mode)
			case "store-batch-err":
				plan.Add("store-batch-err", "*", "")
			case "store-closed-before", "store-closed-at-fetch", "store-closed-at-store":
				closeAt = f.Site
				storeCloses = true
			case "record-undecodable":
				action := byte(2)
				if c.Kind == "propose" {
					action = 3
				}
				k := string(append(append([]byte{}, accs[pos].PubKey...), action))
				switch f.Mode {
				case "version-only":
					prewrite[k] = []byte{0x01}
				case "wrong-length":
					prewrite[k] = []byte{0x01, 1, 2, 3, 4, 5, 6, 7, 8, 9, 10, 11, 12}
				case "truncated-gob":
					prewrite[k] = []byte{0x2c, 0xff, 0x81, 0x03, 0x01, 0x01}
				case "zero-length-gob":
					prewrite[k] = []byte{0x00}
				default:
					prewrite[k] = []byte{0x9e, 0x13, 0xfa, 0x00, 0x41, 0x07, 0xc3}
				}
				plan.Mark("record-undecodable " + key + " " + f.Mode)
			default:
				plan.Add(f.Site, key, f.Mode)
			}
		}
	}
	if len(prewrite) > 0 {
		store, err := standardrules.NewStore(context.Background(), dir, false, zerolog.Nop())
		if err != nil {
			return nil, nil, nil, err
		}
		for k, v := range prewrite {
			if err := store.Store(context.Background(), []byte(k), v); err != nil {
				return nil, nil, nil, err
			}
		}
		if err := store.Close(context.Background()); err != nil {
			return nil, nil, nil, err
		}
	}

	st, err := vkit.NewStack(vkit.StackOpts{
		World: world, Dir: dir, Permissions: vkit.AllPermissions(client),
		WrapFetcher:  func(f fetcher.Service) fetcher.Service { return &vkit.FaultFetcher{Service: f, Plan: plan} },
		WrapChecker:  func(s checker.Service) checker.Service { return &vkit.FaultChecker{Service: s, Plan: plan} },
		WrapUnlocker: func(u unlocker.Service) unlocker.Service { return &vkit.FaultUnlocker{Service: u, Plan: plan} },
		WrapRules:    func(r rules.Service) rules.Service { return &vkit.FaultRules{Service: r, Plan: plan} },
		WrapRuler:    func(r ruler.Service) ruler.Service { return &vkit.FaultRuler{Service: r, Plan: plan} },
	})
	if err != nil {
		return nil, nil, nil, err
	}
	defer st.Close()

	// positions that the rule itself will refuse: the key signs the same target first, fault-free
	if c.Kind == "attest" || c.Kind == "attests" {
		plan.Disabled = true
		for _, pos := range c.Denied {
			if pos < 0 || pos >= c.N || data[pos].att == nil || len(data[pos].att.Domain) != 32 {
				continue
			}
			pre := *data[pos].att
			pre.BlockRoot = rootOf(uint64(pos)+100, 9)
			if r := st.Attest(client, "", vkit.TargetOf(accs[pos], false), false, &pre); !r.OK() {
				// locked accounts and the like: the position is refused for another reason anyway
				continue
			}
		}
		plan.Disabled = false
	}

	var hookMu sync.Mutex
	verifhook.Set(func(ev verifhook.Event) error {
		hookMu.Lock()
		defer hookMu.Unlock()
		switch ev.Name {
		case "store.fetch.enter":
			if closeAt == "store-closed-at-fetch" {
				closeAt = ""
				plan.Mark("store-closed-at-fetch * ")
				_ = st.RawRules.Close(context.Background())
			}
			if _, hit := plan.Hit("store-fetch-err", fmt.Sprintf("%x", ev.Keys[0][:48])); hit {
				return errors.New("verif: injected fetch failure")
			}
		case "store.store.enter":
			if closeAt == "store-closed-at-store" {
				closeAt = ""
				plan.Mark("store-closed-at-store * ")
				_ = st.RawRules.Close(context.Background())
			}
			if _, hit := plan.Hit("store-store-err", fmt.Sprintf("%x", ev.Keys[0][:48])); hit {
				return errors.New("verif: injected store failure")
			}
		case "store.batch.enter":
			if closeAt == "store-closed-at-store" {
				closeAt = ""
				plan.Mark("store-closed-at-store * ")
				_ = st.RawRules.Close(context.Background())
			}
			if _, hit := plan.Hit("store-batch-err", "*"); hit {
				return errors.New("verif: injected batch store failure")
			}
		}

		return nil
	})
	defer verifhook.Set(nil)
	if closeAt == "store-closed-before" {
		closeAt = ""
		plan.Mark("store-closed-before * ")
		_ = st.RawRules.Close(context.Background())
	}

	ts := make([]vkit.Target, c.N)
	for i := range ts {
		ts[i] = vkit.TargetOf(accs[i], c.ByKey[i%len(c.ByKey)])
	}
	call := func() ([]vkit.Res, error) {
		switch c.Kind {
		case "sign":
			return []vkit.Res{st.SignGeneric(client, "", ts[0], c.ViaGRPC, data[0].gen)}, nil
		case "multisign":
			gs := make([]*vkit.Generic, c.N)
			for i := range gs {
				gs[i] = data[i].gen
			}

			return st.Multisign(client, "", ts, c.ViaGRPC, gs), nil
		case "attest":
			return []vkit.Res{st.Attest(client, "", ts[0], c.ViaGRPC, data[0].att)}, nil
		case "attests":
			as := make([]*vkit.Att, c.N)
			for i := range as {
				as[i] = data[i].att
			}

			return st.AttestBatch(client, "", ts, c.ViaGRPC, as), nil
		case "propose":
			return []vkit.Res{st.Propose(client, "", ts[0], c.ViaGRPC, data[0].prop)}, nil
		}

		return nil, fmt.Errorf("unknown kind %q", c.Kind)
	}
	var rs []vkit.Res
	if storeCloses {
		// A write batch flushed into a closed badger database never returns (observed on the
		// unchanged tree: WriteBatch.Flush blocks).  A request that never answers releases nothing,
		// so for plans that close the store the call is given 3 s and then counted as "no response".
		type answer struct {
			rs  []vkit.Res
			err error
		}
		ch := make(chan answer, 1)
		go func() {
			r, e := call()
			ch <- answer{r, e}
		}()
		select {
		case a := <-ch:
			rs, err = a.rs, a.err
		case <-time.After(3 * time.Second):
			plan.Mark("no-response-after-store-close * ")
			rs = nil
		}
	} else {
		rs, err = call()
	}
	if err != nil {
		return nil, nil, nil, err
	}

	return &result{rs: rs, fired: plan.AllFired()}, data, accs, nil
}

type outcome struct {
	firedOnSigned int // faults that fired on positions the fault-free twin signed
	fired         []string
	states        []string
}

func run(c *Case) (*outcome, *vkit.Violation, error) {
	twin, _, _, err := execute(c, false)
	if err != nil {
		return nil, nil, err
	}
	res, data, accs, err := execute(c, true)
	if err != nil {
		return nil, nil, err
	}
	o := &outcome{fired: res.fired}
	for _, r := range res.rs {
		o.states = append(o.states, r.State)
	}
	where := func(i int) string {
		return fmt.Sprintf("%s (grpc=%v, %d entries) position %d, faults %+v, fired %v", c.Kind, c.ViaGRPC, c.N, i, c.Faults, res.fired)
	}
	// (a) signature <=> SUCCEEDED, position by position; nothing beyond the request
	for i, r := range res.rs {
		if r.OK() != r.Released() {
			return o, vkit.Violf("state-signature-mismatch", "%s: state %s with %d signature bytes", where(i), r.State, len(r.Sig)), nil
		}
		if i >= c.N && r.Released() {
			return o, vkit.Violf("signature-beyond-request", "%s", where(i)), nil
		}
	}
	// (c) returned signatures verify over the submitted data under the addressed key
	for i, r := range res.rs {
		if !r.Released() || i >= c.N {
			continue
		}
		var root [32]byte
		switch {
		case data[i].att != nil:
			root = vkit.SigningRoot(vkit.AttDataRoot(data[i].att), data[i].att.Domain)
		case data[i].prop != nil:
			root = vkit.SigningRoot(vkit.PropDataRoot(data[i].prop), data[i].prop.Domain)
		default:
			var d [32]byte
			copy(d[:], data[i].gen.Data)
			root = vkit.SigningRoot(d, data[i].gen.Domain)
		}
		if err := vkit.VerifySig(accs[i].PubKey, root, r.Sig); err != nil {
			return o, vkit.Violf("signature-invalid-under-fault", "%s: %v", where(i), err), nil
		}
	}
	// (b) a fault that fired on the path of position i leaves position i unsigned
	for i := 0; i < c.N; i++ {
		key := fmt.Sprintf("%x", accs[i].PubKey)
		var hits []string
		for _, f := range res.fired {
			parts := strings.SplitN(f, " ", 3)
			switch {
			case parts[1] == key || parts[1] == accs[i].Path():
				hits = append(hits, f)
			case parts[1] == "*" && parts[0] != "rules-list":
				hits = append(hits, f)
			case parts[0] == "rules-list" && strings.HasPrefix(parts[2], "all-unknown"):
				hits = append(hits, f)
			case parts[0] == "rules-list" && strings.HasPrefix(parts[2], "short:"):
				var n int
				fmt.Sscanf(parts[2], "short:%d", &n)
				if i >= n {
					hits = append(hits, f)
				}
			}
		}
		if len(hits) == 0 {
			continue
		}
		if i < len(twin.rs) && twin.rs[i].Released() {
			o.firedOnSigned++
		}
		if i < len(res.rs) && (res.rs[i].Released() || res.rs[i].OK()) {
			return o, vkit.Violf("signed-despite-fault."+strings.SplitN(hits[0], " ", 2)[0], "%s: answered %s with %d signature bytes although %v fired on its path", where(i), res.rs[i].State, len(res.rs[i].Sig), hits), nil
		}
	}

	return o, nil, nil
}

func record(c *Case, o *outcome) {
	vkit.S.Eval()
	vkit.S.Class("kind-" + c.Kind)
	for _, f := range o.fired {
		vkit.S.Class("fired:" + strings.SplitN(f, " ", 2)[0])
	}
	if o.firedOnSigned > 0 {
		vkit.S.Nontrivial(c)
		vkit.S.Class("fault-fired-on-otherwise-signed-position")
	}
	if len(c.Faults) > 1 {
		vkit.S.Class("multi-fault-plan")
	}
	if len(c.Denied) > 0 {
		vkit.S.Class("batch-with-rule-denied-positions")
	}
	vkit.S.Sample(map[string]any{"case": c, "fired": o.fired, "states": o.states}, o.firedOnSigned > 0 && c.N > 2)
}

// EnumCases is the finite single-fault table: request kind x fault site/mode x position class.
func EnumCases() []*Case {
	var out []*Case
	for _, kind := range []string{"sign", "multisign", "attest", "attests", "propose"} {
		for _, s := range Sites {
			if !applies(s.Site, kind) {
				continue
			}
			modes := s.Modes
			if modes == nil {
				modes = []string{""}
			}
			for _, mode := range modes {
				batch := kind == "multisign" || kind == "attests"
				positions := []int{0}
				n := 1
				if batch {
					n = 5
					positions = []int{0, 2, 4}
					if s.Whole && s.Site != "rules-list" {
						positions = []int{-1}
					}
					if s.Site == "rules-list" && mode == "short" {
						positions = []int{1, 3, 4}
					}
				}
				for _, pos := range positions {
					for _, grpc := range []bool{false, true} {
						out = append(out, &Case{Kind: kind, ViaGRPC: grpc, N: n, ByKey: []bool{false, true, false}, Start: 3, Faults: []Fault{{Site: s.Site, Pos: pos, Mode: mode}}})
					}
					if kind == "attests" {
						// the same fault next to positions the rule refuses, before and after approved ones
						for _, denied := range [][]int{{0}, {1, 3}, {4}} {
							out = append(out, &Case{Kind: kind, N: n, ByKey: []bool{false, true, false}, Start: 3, Denied: denied, Faults: []Fault{{Site: s.Site, Pos: pos, Mode: mode}}})
						}
					}
				}
			}
		}
	}

	return out
}

// TestC06Enum runs the complete single-fault table.
func TestC06Enum(t *testing.T) {
	defer vkit.Flush()
	if vkit.ReplayOnly() {
		return
	}
	cases := EnumCases()
	for _, c := range cases {
		stop := vkit.Watch(c, 120*time.Second)
		o, v, err := run(c)
		stop()
		if err != nil {
			t.Fatalf("INFRA: %v", err)
		}
		record(c, o)
		if len(o.fired) == 0 && len(c.Denied) == 0 {
			// the request never reached the faulted step on this tree (for example a store call the code
			// no longer makes): the entry decides nothing; the essential classes insist that every kind of
			// site fires somewhere in the table
			vkit.S.Class("enumerated-fault-that-could-not-fire")
		}
		vkit.Report(t, "C06", "TestC06Random", c, v)
	}
	vkit.S.ClassN("enumerated-single-fault-cases", len(cases))
}

// TestC06Random draws multi-fault plans.
func TestC06Random(t *testing.T) {
	defer vkit.Flush()
	for _, r := range vkit.ReplayFiles("TestC06Random") {
		var c Case
		if err := json.Unmarshal(r.Case, &c); err != nil {
			t.Fatalf("bad replay case: %v", err)
		}
		_, v, err := run(&c)
		if err != nil {
			t.Fatalf("replay infrastructure error: %v", err)
		}
		vkit.Report(t, "C06", "TestC06Random", &c, v)
	}
	if vkit.ReplayOnly() {
		return
	}
	rapid.Check(t, func(rt *rapid.T) {
		c := &Case{
			Kind:    rapid.SampledFrom([]string{"sign", "multisign", "multisign", "attest", "attests", "attests", "attests", "propose"}).Draw(rt, "kind"),
			ViaGRPC: rapid.Bool().Draw(rt, "grpc"),
			N:       1,
			ByKey:   rapid.SliceOfN(rapid.Bool(), 1, 5).Draw(rt, "bykey"),
			Start:   rapid.IntRange(0, nGood-1).Draw(rt, "start"),
		}
		if c.Kind == "multisign" || c.Kind == "attests" {
			c.N = rapid.IntRange(1, 20).Draw(rt, "n")
		}
		if c.Kind == "attests" && rapid.Bool().Draw(rt, "mixed_verdicts") {
			for i := 0; i < c.N; i++ {
				if rapid.IntRange(0, 2).Draw(rt, "denied") == 0 {
					c.Denied = append(c.Denied, i)
				}
			}
		}
		nf := rapid.IntRange(0, 4).Draw(rt, "nfaults")
		for i := 0; i < nf; i++ {
			s := Sites[rapid.IntRange(0, len(Sites)-1).Draw(rt, "site")]
			if !applies(s.Site, c.Kind) {
				continue
			}
			f := Fault{Site: s.Site, Pos: rapid.IntRange(0, c.N-1).Draw(rt, "pos")}
			if s.Modes != nil {
				f.Mode = rapid.SampledFrom(s.Modes).Draw(rt, "mode")
			}
			c.Faults = append(c.Faults, f)
		}
		stop := vkit.Watch(c, 120*time.Second)
		o, v, err := run(c)
		stop()
		if err != nil {
			rt.Fatalf("INFRA: %v", err)
		}
		record(c, o)
		vkit.Report(rt, "C06", "TestC06Random", c, v)
	})
}
