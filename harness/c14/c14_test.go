// Package c14 decides C14: two conflicting duties can never both collect a threshold of partial signatures.
package c14

import (
	"encoding/binary"
	"encoding/json"
	"fmt"
	"sync"
	"sync/atomic"
	"testing"
	"time"

	pb "github.com/wealdtech/eth2-signer-api/pb/v1"
	"pgregory.net/rapid"

	"verif/harness/vkit"
)

const client = "client1"

// Case is one distributed account, one pair of conflicting duties and a routing.
type Case struct {
	IDs      []uint64 `json:"ids"`
	N        uint32   `json:"participants"`
	T        uint32   `json:"threshold"`
	Conflict string   `json:"conflict"` // double-vote | a-surrounds-b | b-surrounds-a | two-blocks
	History  int      `json:"benign_history"`
	// HistoryBatch: the benign history's attestations travel in batch calls (next to an ordinary
	// account's attestation) instead of single calls.
	HistoryBatch bool `json:"benign_history_in_batches,omitempty"`
	// StaleOther: the ordinary account's attestation that accompanies a duty in a batch call is one
	// the instance refuses (a different vote for a target it signed at the start), instead of a fresh one.
	StaleOther bool    `json:"batch_companion_refused,omitempty"`
	Routing    [][]int `json:"routing"` // per participant: ordered duties (0 = A, 1 = B), repeats allowed
	// Batch[i][k] says whether participant i's k-th request travels in a batch call (next to a benign
	// attestation of an ordinary account of that instance) instead of a single call.
	Batch [][]bool `json:"batch,omitempty"`
	// RestartAfter[i] = k: participant i is cleanly restarted after its k-th delivery (sequential
	// routing only; -1 = never).  After a restart the generated account is a start-up account.
	RestartAfter []int `json:"restart_after,omitempty"`
	Concurrent   bool  `json:"concurrent"`
	ByKey        bool  `json:"by_key"`
	ViaGRPC      bool  `json:"via_grpc"`
}

func root(a uint64, s byte) []byte {
	r := make([]byte, 32)
	binary.LittleEndian.PutUint64(r, a)
	r[31] = s

	return r
}

func attDomain() []byte { return append([]byte{1, 0, 0, 0}, make([]byte, 28)...) }

type duty struct {
	att  *vkit.Att
	prop *vkit.Prop
}

func duties(c *Case) [2]duty {
	base := uint64(10 + c.History)
	mk := func(src, tgt uint64, salt uint64) *vkit.Att {
		return &vkit.Att{Slot: 1, BlockRoot: root(salt, 1), SrcEpoch: src, SrcRoot: root(0, 2), TgtEpoch: tgt, TgtRoot: root(0, 3), Domain: attDomain()}
	}
	switch c.Conflict {
	case "double-vote":
		return [2]duty{{att: mk(base, base+2, 1)}, {att: mk(base, base+2, 2)}}
	case "a-surrounds-b":
		return [2]duty{{att: mk(base, base+5, 1)}, {att: mk(base+1, base+4, 2)}}
	case "b-surrounds-a":
		return [2]duty{{att: mk(base+1, base+4, 1)}, {att: mk(base, base+5, 2)}}
	default:
		p := func(salt uint64) *vkit.Prop {
			return &vkit.Prop{Slot: base, ProposerIndex: 3, ParentRoot: root(salt, 4), StateRoot: root(0, 5), BodyRoot: root(0, 6), Domain: make([]byte, 32)}
		}

		return [2]duty{{prop: p(1)}, {prop: p(2)}}
	}
}

type outcome struct {
	restarts  int
	generated bool
	offered   [2]int
	signed    [2]int
}

func run(c *Case) (*outcome, *vkit.Violation, error) {
	cl, err := vkit.NewCluster(vkit.ClusterOpts{IDs: c.IDs, NDAccounts: 1})
	if err != nil {
		return nil, nil, err
	}
	defer cl.Close()
	o := &outcome{}
	name := "acc14"
	account := vkit.DWallet + "/" + name
	resp, err := cl.Nodes[0].Generate(client, account, c.N, c.T)
	if err != nil {
		return o, nil, err
	}
	if resp.GetState() != pb.ResponseState_SUCCEEDED {
		return o, nil, nil // generation refused these parameters: nothing to attack
	}
	o.generated = true
	composite := resp.GetPublicKey()
	type part struct {
		node  *vkit.Node
		share []byte
	}
	var parts []part
	for _, p := range resp.GetParticipants() {
		n := cl.ByID[p.GetId()]
		da, held, err := n.StoredDistAccount(name)
		if err != nil || !held {
			return o, nil, fmt.Errorf("participant %d does not hold the account: %v", p.GetId(), err)
		}
		parts = append(parts, part{node: n, share: da.SharePub})
	}
	target := func(p part) vkit.Target {
		return vkit.Target{Account: account, PubKey: p.share, ByKey: c.ByKey}
	}
	if c.StaleOther {
		for _, p := range parts {
			other := p.node.World.ByPath[vkit.NWallet+"/Account 0"]
			a := &vkit.Att{Slot: 1, BlockRoot: root(7, 1), SrcEpoch: 1, SrcRoot: root(0, 2), TgtEpoch: 2, TgtRoot: root(0, 3), Domain: attDomain()}
			if r := p.node.Stack.Attest(client, "", vkit.TargetOf(other, false), false, a); !r.OK() {
				return o, nil, fmt.Errorf("companion account's first attestation refused by %d: %s", p.node.ID, r.State)
			}
		}
	}
	var benign atomic.Uint64
	benign.Store(1000)
	// benign common history on every participant
	for h := 0; h < c.History; h++ {
		for _, p := range parts {
			a := &vkit.Att{Slot: 1, BlockRoot: root(9, 1), SrcEpoch: uint64(h), SrcRoot: root(0, 2), TgtEpoch: uint64(h + 1), TgtRoot: root(0, 3), Domain: attDomain()}
			if c.HistoryBatch {
				other := p.node.World.ByPath[vkit.NWallet+"/Account 0"]
				e := benign.Add(2)
				b := &vkit.Att{Slot: 1, BlockRoot: root(e, 1), SrcEpoch: e, SrcRoot: root(0, 2), TgtEpoch: e + 1, TgtRoot: root(0, 3), Domain: attDomain()}
				rs := p.node.Stack.AttestBatch(client, "", []vkit.Target{target(p), vkit.TargetOf(other, false)}, false, []*vkit.Att{a, b})
				if len(rs) != 2 || !rs[0].OK() {
					return o, nil, fmt.Errorf("benign batch attestation refused by %d: %+v", p.node.ID, rs)
				}
			} else if r := p.node.Stack.Attest(client, "", target(p), false, a); !r.OK() {
				return o, nil, fmt.Errorf("benign attestation refused by %d: %s", p.node.ID, r.State)
			}
			pr := &vkit.Prop{Slot: uint64(h + 1), ParentRoot: root(9, 4), StateRoot: root(0, 5), BodyRoot: root(0, 6), Domain: make([]byte, 32)}
			if r := p.node.Stack.Propose(client, "", target(p), false, pr); !r.OK() {
				return o, nil, fmt.Errorf("benign proposal refused by %d: %s", p.node.ID, r.State)
			}
		}
	}
	ds := duties(c)
	var mu sync.Mutex
	partials := [2]map[uint64][]byte{{}, {}}
	offered := [2]map[uint64]bool{{}, {}}
	send := func(p part, d int, batch bool) *vkit.Violation {
		var r vkit.Res
		var rt [32]byte
		if ds[d].att != nil {
			a := *ds[d].att
			if batch {
				// the duty as one position of a batch call, next to an ordinary account's attestation
				other := p.node.World.ByPath[vkit.NWallet+"/Account 0"]
				e := benign.Add(2)
				b := &vkit.Att{Slot: 1, BlockRoot: root(e, 1), SrcEpoch: e, SrcRoot: root(0, 2), TgtEpoch: e + 1, TgtRoot: root(0, 3), Domain: attDomain()}
				if c.StaleOther {
					b.SrcEpoch, b.TgtEpoch = 1, 2 // a second, different vote for target 2: refused
				}
				first := e%4 == 0
				if c.StaleOther {
					first = e%4 < 2 // the refused companion comes last half of the time
				}
				ts := []vkit.Target{target(p), vkit.TargetOf(other, false)}
				as := []*vkit.Att{&a, b}
				if !first {
					ts[0], ts[1] = ts[1], ts[0]
					as[0], as[1] = as[1], as[0]
				}
				rs := p.node.Stack.AttestBatch(client, "", ts, c.ViaGRPC, as)
				idx := 0
				if !first {
					idx = 1
				}
				if idx < len(rs) {
					r = rs[idx]
				}
			} else {
				r = p.node.Stack.Attest(client, "", target(p), c.ViaGRPC, &a)
			}
			rt = vkit.SigningRoot(vkit.AttDataRoot(&a), a.Domain)
		} else {
			pr := *ds[d].prop
			r = p.node.Stack.Propose(client, "", target(p), c.ViaGRPC, &pr)
			rt = vkit.SigningRoot(vkit.PropDataRoot(&pr), pr.Domain)
		}
		mu.Lock()
		defer mu.Unlock()
		offered[d][p.node.ID] = true
		if r.Released() {
			if err := vkit.VerifySig(p.share, rt, r.Sig); err != nil {
				return vkit.Violf("partial-signature-invalid", "participant %d returned a partial signature for duty %d that does not verify under its share key: %v", p.node.ID, d, err)
			}
			partials[d][p.node.ID] = r.Sig
		}

		return nil
	}
	viaBatch := func(i, k int) bool {
		return i < len(c.Batch) && k < len(c.Batch[i]) && c.Batch[i][k]
	}
	var viol *vkit.Violation
	if c.Concurrent {
		var wg sync.WaitGroup
		for i, p := range parts {
			if i >= len(c.Routing) {
				break
			}
			wg.Add(1)
			go func(i int, p part, list []int) {
				defer wg.Done()
				var inner sync.WaitGroup
				for k, d := range list {
					inner.Add(1)
					go func(k int, d int) {
						defer inner.Done()
						if v := send(p, d, viaBatch(i, k)); v != nil {
							mu.Lock()
							viol = v
							mu.Unlock()
						}
					}(k, d)
				}
				inner.Wait()
			}(i, p, c.Routing[i])
		}
		wg.Wait()
	} else {
		// round-robin over the instances, each taking the next duty of its list
		for step := 0; ; step++ {
			any := false
			for i, p := range parts {
				if i >= len(c.Routing) || step >= len(c.Routing[i]) {
					continue
				}
				any = true
				if v := send(p, c.Routing[i][step], viaBatch(i, step)); v != nil {
					viol = v
				}
				if i < len(c.RestartAfter) && c.RestartAfter[i] == step {
					if err := p.node.Stack.Restart(); err != nil {
						return o, nil, fmt.Errorf("restart of %d: %w", p.node.ID, err)
					}
					if err := p.node.Stack.SetProcess(p.node.Process); err != nil {
						return o, nil, err
					}
					o.restarts++
				}
			}
			if !any {
				break
			}
		}
	}
	if viol != nil {
		return o, viol, nil
	}
	o.offered = [2]int{len(offered[0]), len(offered[1])}
	o.signed = [2]int{len(partials[0]), len(partials[1])}
	if o.signed[0] >= int(c.T) && o.signed[1] >= int(c.T) {
		return o, vkit.Violf("both-conflicting-duties-reached-threshold."+c.Conflict, "account with n=%d t=%d: duty A collected %d and duty B %d valid partial signatures (routing %v, concurrent=%v)", c.N, c.T, o.signed[0], o.signed[1], c.Routing, c.Concurrent), nil
	}
	// cross-check: a duty with >= t partials recovers to a valid composite signature
	for d := 0; d < 2; d++ {
		if len(partials[d]) < int(c.T) {
			continue
		}
		var ids []uint64
		for id := range partials[d] {
			ids = append(ids, id)
		}
		var rt [32]byte
		if ds[d].att != nil {
			rt = vkit.SigningRoot(vkit.AttDataRoot(ds[d].att), ds[d].att.Domain)
		} else {
			rt = vkit.SigningRoot(vkit.PropDataRoot(ds[d].prop), ds[d].prop.Domain)
		}
		sub := vkit.Subsets(ids, int(c.T))[0]
		ok, err := vkit.Recover(partials[d], sub, composite, rt[:])
		if err != nil {
			return o, nil, err
		}
		if !ok {
			return o, vkit.Violf("threshold-partials-do-not-recover", "duty %d: %d partial signatures do not combine into a valid composite signature", d, len(sub)), nil
		}
	}

	return o, nil, nil
}

// TestC14 decides C14.
func TestC14(t *testing.T) {
	defer vkit.Flush()
	for _, r := range vkit.ReplayFiles("TestC14") {
		var c Case
		if err := json.Unmarshal(r.Case, &c); err != nil {
			t.Fatalf("bad replay case: %v", err)
		}
		for i := 0; i < 20; i++ {
			_, v, err := run(&c)
			if err != nil {
				t.Fatalf("replay infrastructure error: %v", err)
			}
			vkit.Report(t, "C14", "TestC14", &c, v)
		}
	}
	if vkit.ReplayOnly() {
		return
	}
	rapid.Check(t, func(rt *rapid.T) {
		nInst := rapid.IntRange(2, 7).Draw(rt, "instances")
		ids := rapid.Permutation([]uint64{1, 2, 3, 4, 5, 1 << 63, 1<<64 - 1, 70000, 9}).Draw(rt, "ids")[:nInst]
		c := &Case{IDs: ids, Conflict: rapid.SampledFrom([]string{"double-vote", "a-surrounds-b", "b-surrounds-a", "two-blocks"}).Draw(rt, "conflict"),
			History: rapid.IntRange(0, 2).Draw(rt, "history"), HistoryBatch: rapid.Bool().Draw(rt, "history_batch"), StaleOther: rapid.IntRange(0, 2).Draw(rt, "stale_other") == 0, Concurrent: rapid.Bool().Draw(rt, "concurrent"), ByKey: rapid.Bool().Draw(rt, "bykey"), ViaGRPC: rapid.Bool().Draw(rt, "grpc")}
		if rapid.IntRange(0, 9).Draw(rt, "square") < 7 {
			c.N = uint32(nInst)
			if rapid.Bool().Draw(rt, "fewer") {
				c.N = uint32(rapid.IntRange(2, nInst).Draw(rt, "n"))
			}
			c.T = uint32(rapid.IntRange(int(c.N)/2+1, int(c.N)).Draw(rt, "t"))
		} else {
			// the whole square: a tree that accepted t <= n/2 would be attacked with those parameters
			c.N = uint32(rapid.IntRange(2, nInst).Draw(rt, "n"))
			c.T = uint32(rapid.IntRange(1, int(c.N)).Draw(rt, "t"))
		}
		for i := 0; i < int(c.N); i++ {
			var list []int
			switch rapid.IntRange(0, 5).Draw(rt, "route_kind") {
			case 0:
				list = []int{0, 1}
			case 1:
				list = []int{1, 0}
			case 2:
				list = []int{i % 2, 1 - i%2}
			case 3:
				list = []int{i % 2}
			default:
				list = rapid.SliceOfN(rapid.IntRange(0, 1), 1, 4).Draw(rt, "route")
			}
			c.Routing = append(c.Routing, list)
			paths := make([]bool, len(list))
			switch rapid.IntRange(0, 3).Draw(rt, "path_kind") {
			case 0: // everything single
			case 1: // duty A single, duty B in a batch
				for k, d := range list {
					paths[k] = d == 1
				}
			default:
				for k := range list {
					paths[k] = rapid.Bool().Draw(rt, "via_batch")
				}
			}
			c.Batch = append(c.Batch, paths)
			ra := -1
			if !c.Concurrent && rapid.IntRange(0, 3).Draw(rt, "restart") == 0 {
				ra = rapid.IntRange(0, len(list)-1).Draw(rt, "restart_after")
			}
			c.RestartAfter = append(c.RestartAfter, ra)
		}
		stop := vkit.Watch(c, 120*time.Second)
		o, v, err := run(c)
		stop()
		if err != nil {
			rt.Fatalf("INFRA: %v", err)
		}
		vkit.S.Eval()
		if o.generated {
			vkit.S.Class(fmt.Sprintf("account-n%d-t%d", c.N, c.T))
			vkit.S.Class("conflict-" + c.Conflict)
			if c.Concurrent {
				vkit.S.Class("concurrent-delivery")
			}
			if o.restarts > 0 {
				vkit.S.Class("instance-restarted-between-deliveries")
			}
			if c.StaleOther && mixedOrBatch(c) {
				vkit.S.Class("duty-delivered-in-a-batch-next-to-a-refused-entry")
			}
			if c.History > 0 && c.HistoryBatch {
				vkit.S.Class("earlier-history-signed-through-batch-calls")
			}
			mixed := false
			for i := range c.Batch {
				single, batch := false, false
				for _, b := range c.Batch[i] {
					single, batch = single || !b, batch || b
				}
				mixed = mixed || (single && batch)
			}
			if mixed && ds14att(c) {
				vkit.S.Class("instance-reached-over-single-and-batch-calls")
			}
			if o.signed[0] >= int(c.T) || o.signed[1] >= int(c.T) {
				vkit.S.Class("one-duty-reached-threshold")
			}
		} else {
			vkit.S.Class("generation-refused")
		}
		nt := o.generated && o.offered[0] >= int(c.T) && o.offered[1] >= int(c.T)
		if nt {
			vkit.S.Nontrivial(c)
			vkit.S.Class("both-duties-offered-to-a-threshold-of-instances")
		}
		vkit.S.Sample(map[string]any{"case": c, "offered": o.offered, "signed": o.signed}, nt && c.N >= 3)
		vkit.Report(rt, "C14", "TestC14", c, v)
	})
}

func mixedOrBatch(c *Case) bool {
	for i := range c.Batch {
		for _, b := range c.Batch[i] {
			if b {
				return true
			}
		}
	}

	return false
}

func ds14att(c *Case) bool { return c.Conflict != "two-blocks" }
