package c20

import (
	"bufio"
	"bytes"
	"context"
	"encoding/json"
	"fmt"
	"os"
	"reflect"
	"sync"
	"syscall"

	pb "github.com/wealdtech/eth2-signer-api/pb/v1"
	"google.golang.org/protobuf/proto"

	"verif/harness/vkit"
)

// Target is a Dirk instance (with a second instance as key-generation peer) whose handlers are
// called with wire-decoded requests.
type Target struct {
	cl     *vkit.Cluster
	node   *vkit.Node
	Keys   [][]byte
	Paths  []string
	canary uint64
}

// NewTarget builds the instance.
func NewTarget() (*Target, error) {
	perms := vkit.AllPermissions("client1", "client2")
	cl, err := vkit.NewCluster(vkit.ClusterOpts{IDs: []uint64{1, 2}, Permissions: perms, NDAccounts: 6})
	if err != nil {
		return nil, err
	}
	t := &Target{cl: cl, node: cl.Nodes[0], canary: 100}
	for _, a := range t.node.World.Accounts {
		t.Keys = append(t.Keys, a.PubKey)
		t.Paths = append(t.Paths, a.Path())
	}

	return t, nil
}

// LimitMemory puts a 16 GiB ceiling on the address space, so that a request-sized allocation is a
// visible failure on any machine rather than a function of the host's RAM.
func LimitMemory() {
	lim := &syscall.Rlimit{Cur: 16 << 30, Max: 16 << 30}
	_ = syscall.Setrlimit(syscall.RLIMIT_AS, lim)
}

func isNil(v any) bool {
	if v == nil {
		return true
	}
	rv := reflect.ValueOf(v)

	return rv.Kind() == reflect.Ptr && rv.IsNil()
}

// Call decodes the wire bytes into the method's request type and calls the handler.  It returns a
// short description of the answer; "NILNIL" if the handler returned neither a response nor an error.
func (t *Target) Call(r *Req) string {
	ctx := vkit.Ctx(r.Client, "10.9.8.7")
	st := t.node.Stack
	var resp any
	var err error
	dec := func(m proto.Message) bool {
		if e := proto.Unmarshal(r.Wire, m); e != nil {
			resp, err = nil, fmt.Errorf("undecodable: %w", e)

			return false
		}

		return true
	}
	switch r.Method {
	case "Signer/Sign":
		m := &pb.SignRequest{}
		if dec(m) {
			resp, err = st.SignerH.Sign(ctx, m)
		}
	case "Signer/Multisign":
		m := &pb.MultisignRequest{}
		if dec(m) {
			resp, err = st.SignerH.Multisign(ctx, m)
		}
	case "Signer/SignBeaconAttestation":
		m := &pb.SignBeaconAttestationRequest{}
		if dec(m) {
			resp, err = st.SignerH.SignBeaconAttestation(ctx, m)
		}
	case "Signer/SignBeaconAttestations":
		m := &pb.SignBeaconAttestationsRequest{}
		if dec(m) {
			resp, err = st.SignerH.SignBeaconAttestations(ctx, m)
		}
	case "Signer/SignBeaconProposal":
		m := &pb.SignBeaconProposalRequest{}
		if dec(m) {
			resp, err = st.SignerH.SignBeaconProposal(ctx, m)
		}
	case "Lister/ListAccounts":
		m := &pb.ListAccountsRequest{}
		if dec(m) {
			resp, err = st.ListerH.ListAccounts(ctx, m)
		}
	case "AccountManager/Unlock":
		m := &pb.UnlockAccountRequest{}
		if dec(m) {
			resp, err = st.AccMgrH.Unlock(ctx, m)
		}
	case "AccountManager/Lock":
		m := &pb.LockAccountRequest{}
		if dec(m) {
			resp, err = st.AccMgrH.Lock(ctx, m)
		}
	case "AccountManager/Generate":
		m := &pb.GenerateRequest{}
		if dec(m) {
			resp, err = st.AccMgrH.Generate(ctx, m)
		}
	case "WalletManager/Unlock":
		m := &pb.UnlockWalletRequest{}
		if dec(m) {
			resp, err = st.WalMgrH.Unlock(ctx, m)
		}
	case "WalletManager/Lock":
		m := &pb.LockWalletRequest{}
		if dec(m) {
			resp, err = st.WalMgrH.Lock(ctx, m)
		}
	case "DKG/Prepare":
		m := &pb.PrepareRequest{}
		if dec(m) {
			resp, err = t.node.Receiver.Prepare(ctx, m)
		}
	case "DKG/Execute":
		m := &pb.ExecuteRequest{}
		if dec(m) {
			resp, err = t.node.Receiver.Execute(ctx, m)
		}
	case "DKG/Commit":
		m := &pb.CommitRequest{}
		if dec(m) {
			resp, err = t.node.Receiver.Commit(ctx, m)
		}
	case "DKG/Abort":
		m := &pb.AbortRequest{}
		if dec(m) {
			resp, err = t.node.Receiver.Abort(ctx, m)
		}
	case "DKG/Contribute":
		m := &pb.ContributeRequest{}
		if dec(m) {
			resp, err = t.node.Receiver.Contribute(ctx, m)
		}
	default:
		return "UNKNOWN-METHOD"
	}
	if err != nil {
		return "error"
	}
	if isNil(resp) {
		return "NILNIL"
	}
	switch v := resp.(type) {
	case *pb.SignResponse:
		return "state:" + v.GetState().String()
	case *pb.MultisignResponse:
		if len(v.GetResponses()) == 0 {
			return "state:none"
		}
		st := v.GetResponses()[0].GetState().String()
		for _, x := range v.GetResponses() {
			if x.GetState() == pb.ResponseState_SUCCEEDED {
				st = "SUCCEEDED"
			}
		}

		return "state:" + st
	case *pb.ListAccountsResponse:
		return fmt.Sprintf("state:%s accounts:%d", v.GetState(), len(v.GetAccounts())+len(v.GetDistributedAccounts()))
	case *pb.GenerateResponse:
		return "state:" + v.GetState().String()
	case *pb.UnlockAccountResponse:
		return "state:" + v.GetState().String()
	case *pb.LockAccountResponse:
		return "state:" + v.GetState().String()
	case *pb.UnlockWalletResponse:
		return "state:" + v.GetState().String()
	case *pb.LockWalletResponse:
		return "state:" + v.GetState().String()
	}

	return "ok"
}

// Canary checks that the instance still answers another client's ordinary requests correctly.
func (t *Target) Canary() string {
	st := t.node.Stack
	// the fuzzed client may have locked the wallet or the account: that is its right; the canary
	// uses its own account and re-opens what it needs through the public API first
	_, _ = st.WalMgrH.Unlock(vkit.Ctx("client2", ""), &pb.UnlockWalletRequest{Wallet: vkit.NWallet})
	lr, err := st.ListerH.ListAccounts(vkit.Ctx("client2", ""), &pb.ListAccountsRequest{Paths: []string{vkit.NWallet}})
	if err != nil || lr.GetState() != pb.ResponseState_SUCCEEDED || len(lr.GetAccounts()) < 6 {
		return fmt.Sprintf("canary listing failed: %v %v", err, lr)
	}
	// every pre-existing account must still be usable by another client: a key lock or the locker-wide
	// gate left behind by a hostile request would make one of these calls wait forever
	for _, acc := range t.node.World.Accounts {
		if acc.Wallet != vkit.NWallet {
			continue
		}
		_, _ = st.AccMgrH.Unlock(vkit.Ctx("client2", ""), &pb.UnlockAccountRequest{Account: acc.Path(), Passphrase: []byte(vkit.DefaultPassphrase)})
		t.canary++
		data := make([]byte, 32)
		data[0] = byte(t.canary)
		data[1] = byte(t.canary >> 8)
		data[2] = byte(t.canary >> 16)
		dom := append([]byte{2, 0, 0, 0}, make([]byte, 28)...)
		sr, err := st.SignerH.Sign(vkit.Ctx("client2", ""), &pb.SignRequest{Id: &pb.SignRequest_Account{Account: acc.Path()}, Data: data, Domain: dom})
		if err != nil || sr.GetState() != pb.ResponseState_SUCCEEDED {
			return fmt.Sprintf("canary signing with %s failed: %v %v", acc.Path(), err, sr.GetState())
		}
		var d [32]byte
		copy(d[:], data)
		if err := vkit.VerifySig(acc.PubKey, vkit.SigningRoot(d, dom), sr.GetSignature()); err != nil {
			return "canary signature invalid: " + err.Error()
		}
	}

	return ""
}

// ChildMain serves cases from stdin: one JSON case per line, one answer line per case.
func ChildMain() {
	LimitMemory()
	t, err := NewTarget()
	if err != nil {
		fmt.Fprintln(os.Stderr, "child:", err)
		os.Exit(8)
	}
	out := bufio.NewWriter(os.Stdout)
	fmt.Fprintln(out, "READY")
	out.Flush()
	sc := bufio.NewScanner(os.Stdin)
	sc.Buffer(make([]byte, 1<<20), 1<<28)
	for sc.Scan() {
		var c Case
		if err := json.Unmarshal(sc.Bytes(), &c); err != nil {
			fmt.Fprintln(out, "BADCASE")
			out.Flush()

			continue
		}
		answers := make([]string, len(c.Reqs))
		if c.Parallel {
			var wg sync.WaitGroup
			for i := range c.Reqs {
				wg.Add(1)
				go func(i int) {
					defer wg.Done()
					answers[i] = t.Call(&c.Reqs[i])
				}(i)
			}
			wg.Wait()
		} else {
			for i := range c.Reqs {
				// progress marker, so that the parent knows which request an instance death belongs to
				fmt.Fprintf(out, "REQ %d\n", i)
				out.Flush()
				answers[i] = t.Call(&c.Reqs[i])
			}
		}
		canary := t.Canary()
		b, _ := json.Marshal(map[string]any{"answers": answers, "canary": canary})
		out.Write(bytes.ReplaceAll(b, []byte("\n"), []byte(" ")))
		out.WriteByte('\n')
		out.Flush()
	}
	os.Exit(0)
}

var _ = context.Background
