package c20

import (
	"bufio"
	"bytes"
	"encoding/json"
	"fmt"
	"io"
	"os"
	"os/exec"
	"strconv"
	"strings"
	"sync"
	"testing"
	"time"

	"pgregory.net/rapid"

	"verif/harness/vkit"
)

func TestMain(m *testing.M) {
	if os.Getenv("VERIF_CHILD") == "1" {
		ChildMain()

		return
	}
	os.Exit(m.Run())
}

type child struct {
	cmd    *exec.Cmd
	in     io.WriteCloser
	out    *bufio.Reader
	stderr *bytes.Buffer
}

func selfBinary() string {
	if b := os.Getenv("VERIF_BIN"); b != "" {
		if _, err := os.Stat(b); err == nil {
			return b
		}
	}
	exe, _ := os.Executable()

	return exe
}

func startChild() (*child, error) {
	cmd := exec.Command(selfBinary(), "-test.run", "^$")
	cmd.Env = append(os.Environ(), "VERIF_CHILD=1")
	in, err := cmd.StdinPipe()
	if err != nil {
		return nil, err
	}
	so, err := cmd.StdoutPipe()
	if err != nil {
		return nil, err
	}
	c := &child{cmd: cmd, in: in, out: bufio.NewReaderSize(so, 1<<20), stderr: &bytes.Buffer{}}
	cmd.Stderr = c.stderr
	if err := cmd.Start(); err != nil {
		return nil, err
	}
	line, err := c.out.ReadString('\n')
	if err != nil || strings.TrimSpace(line) != "READY" {
		_ = cmd.Process.Kill()
		_ = cmd.Wait()

		return nil, fmt.Errorf("child did not start: %v %q %s", err, line, c.stderr.String())
	}

	return c, nil
}

func (c *child) stop() {
	if c == nil {
		return
	}
	_ = c.in.Close()
	done := make(chan struct{})
	go func() { _ = c.cmd.Wait(); close(done) }()
	select {
	case <-done:
	case <-time.After(3 * time.Second):
		_ = c.cmd.Process.Kill()
		<-done
	}
}

type answer struct {
	Answers []string `json:"answers"`
	Canary  string   `json:"canary"`
}

var (
	mu  sync.Mutex
	cur *child
)

var lastReq int

// execute sends the case to the child; died=true if the child went away while handling it.
func execute(c *Case) (ans *answer, died bool, why string, err error) {
	mu.Lock()
	defer mu.Unlock()
	lastReq = 0
	if cur == nil {
		if cur, err = startChild(); err != nil {
			return nil, false, "", err
		}
	}
	b, _ := json.Marshal(c)
	type res struct {
		line string
		err  error
	}
	ch := make(chan res, 1)
	go func() {
		if _, e := cur.in.Write(append(b, '\n')); e != nil {
			ch <- res{"", e}

			return
		}
		for {
			l, e := cur.out.ReadString('\n')
			if e == nil && strings.HasPrefix(l, "REQ ") {
				fmt.Sscanf(l, "REQ %d", &lastReq)

				continue
			}
			ch <- res{l, e}

			return
		}
	}()
	var r res
	select {
	case r = <-ch:
	case <-time.After(120 * time.Second):
		_ = cur.cmd.Process.Kill()
		_ = cur.cmd.Wait()
		st := tail(cur.stderr.String(), 1500)
		cur = nil

		return nil, true, "the instance stopped answering (no reply within 120 s): " + st, nil
	}
	if r.err != nil {
		_ = cur.cmd.Wait()
		st := cur.stderr.String()
		cur = nil

		return nil, true, "the instance died: " + firstLines(st, 10), nil
	}
	var a answer
	if e := json.Unmarshal([]byte(r.line), &a); e != nil {
		return nil, false, "", fmt.Errorf("bad child answer %q", r.line)
	}

	return &a, false, "", nil
}

func tail(s string, n int) string {
	if len(s) <= n {
		return s
	}

	return s[len(s)-n:]
}

func firstLines(s string, n int) string {
	// the interesting part of a Go crash is at the top
	i := strings.Index(s, "fatal error:")
	if j := strings.Index(s, "panic:"); j >= 0 && (i < 0 || j < i) {
		i = j
	}
	if i >= 0 {
		s = s[i:]
	}
	lines := strings.Split(s, "\n")
	if len(lines) > n {
		lines = lines[:n]
	}

	return strings.Join(lines, " | ")
}

func sigOf(why string, method string) string {
	switch {
	case strings.Contains(why, "out of memory") || strings.Contains(why, "cannot allocate memory"):
		return "crash.out-of-memory." + method
	case strings.Contains(why, "index out of range"), strings.Contains(why, "slice bounds"):
		return "crash.index-out-of-range"
	case strings.Contains(why, "nil pointer"):
		return "crash.nil-pointer"
	case strings.Contains(why, "stopped answering"):
		return "hang"
	}

	return "crash"
}

type rapidSrc struct{ t *rapid.T }

func (r rapidSrc) Int(n int, label string) int {
	if n <= 1 {
		return 0
	}

	return rapid.IntRange(0, n-1).Draw(r.t, label)
}

func (r rapidSrc) U64(label string) uint64 { return rapid.Uint64().Draw(r.t, label) }

var (
	infoOnce sync.Once
	keys     [][]byte
	paths    []string
)

func info() {
	infoOnce.Do(func() {
		// the same deterministic population the child builds
		tg, err := NewTarget()
		if err != nil {
			panic(err)
		}
		keys, paths = tg.Keys, tg.Paths
		tg.cl.Close()
	})
}

func check(t vkit.TB, c *Case, test string) (hostileReached int) {
	ans, died, why, err := execute(c)
	if err != nil {
		t.Fatalf("INFRA: %v", err)
	}
	if died {
		k := lastReq
		if k >= len(c.Reqs) {
			k = len(c.Reqs) - 1
		}
		vkit.Report(t, "C20", test, c, vkit.Violf(sigOf(why, c.Reqs[k].Method), "request %d of the case (%s, %s, %d wire bytes): %s", k, c.Reqs[k].Method, c.Reqs[k].Note, len(c.Reqs[k].Wire), why))

		return 0
	}
	for i, a := range ans.Answers {
		if a == "NILNIL" {
			vkit.Report(t, "C20", test, c, vkit.Violf("no-response-and-no-error", "request %d (%s): the handler returned neither a response nor an error", i, c.Reqs[i].Method))
		}
		// reached service code: anything other than the handler's early-exit DENIED or a decode error
		if !strings.HasPrefix(c.Reqs[i].Note, "0 hostile") && a != "state:DENIED" && a != "error" {
			hostileReached++
		}
	}
	if ans.Canary != "" {
		vkit.Report(t, "C20", test, c, vkit.Violf("stopped-serving-other-clients", "after the case the instance no longer serves another client: %s", ans.Canary))
	}

	return hostileReached
}

// TestC20 decides C20 with structure-aware generated requests against a crash-isolated instance.
func TestC20(t *testing.T) {
	defer vkit.Flush()
	defer func() { mu.Lock(); cur.stop(); cur = nil; mu.Unlock() }()
	info()
	for _, r := range vkit.ReplayFiles("TestC20") {
		var c Case
		if err := json.Unmarshal(r.Case, &c); err != nil {
			t.Fatalf("bad replay case: %v", err)
		}
		check(t, &c, "TestC20")
	}
	if vkit.ReplayOnly() {
		return
	}
	rapid.Check(t, func(rt *rapid.T) {
		var ctr uint64
		reqGen := rapid.Custom(func(t *rapid.T) Req {
			ctr++
			g := &Gen{S: rapidSrc{t}, Keys: keys, Paths: paths, Counter: ctr * 1000}

			return g.Build(Methods[rapid.IntRange(0, len(Methods)-1).Draw(t, "method")])
		})
		c := &Case{Reqs: rapid.SliceOfN(reqGen, 1, 10).Draw(rt, "reqs"), Parallel: rapid.IntRange(0, 3).Draw(rt, "parallel") == 0}
		reached := check(rt, c, "TestC20")
		vkit.S.Eval()
		for _, r := range c.Reqs {
			vkit.S.Class("method:" + r.Method)
		}
		vkit.S.ClassN("hostile-requests-that-reached-service-code", reached)
		if c.Parallel {
			vkit.S.Class("requests-sent-in-parallel")
		}
		if reached > 0 {
			vkit.S.Nontrivial(c)
		}
		small := &Case{}
		for _, r := range c.Reqs {
			w := r.Wire
			if len(w) > 120 {
				w = w[:120]
			}
			small.Reqs = append(small.Reqs, Req{Method: r.Method, Wire: w, Client: r.Client, Note: r.Note + fmt.Sprintf(" (%d wire bytes)", len(r.Wire))})
		}
		vkit.S.Sample(small, reached > 1)
	})
}

// FuzzC20 is the coverage-guided target: the fuzz input is decoded by a small data provider into
// (method, field plan), i.e. the same structured space; it runs in process (the fuzzing engine records
// the input when a worker dies).
func FuzzC20(f *testing.F) {
	LimitMemory()
	info()
	tg, err := NewTarget()
	if err != nil {
		f.Fatal(err)
	}
	for m := range Methods {
		f.Add([]byte{byte(m), 0, 0, 0, 0, 0, 0, 0, 0, 0, 0, 0, 0, 0, 0, 0})
		f.Add([]byte{byte(m), 9, 9, 9, 9, 9, 9, 9, 9, 9, 9, 9, 9, 9, 9, 9, 9, 9, 9, 9})
		f.Add(append([]byte{byte(m)}, bytes.Repeat([]byte{0xff}, 24)...))
		f.Add(append([]byte{byte(m)}, bytes.Repeat([]byte{7, 1, 8, 3}, 8)...))
	}
	f.Fuzz(func(t *testing.T, data []byte) {
		if len(data) == 0 {
			return
		}
		src := &ByteSrc{B: data[1:]}
		g := &Gen{S: src, Keys: tg.Keys, Paths: tg.Paths}
		r := g.Build(Methods[int(data[0])%len(Methods)])
		if a := tg.Call(&r); a == "NILNIL" {
			t.Fatalf("handler returned neither response nor error for %s", r.Method)
		}
		if c := tg.Canary(); c != "" {
			t.Fatalf("canary: %s", c)
		}
	})
}

// TestC20FuzzReplay turns a failing input of the native fuzzer ($VERIF_FUZZ_INPUT, a corpus file)
// into an ordinary case and runs it through the crash-isolated path, which writes the replay file.
func TestC20FuzzReplay(t *testing.T) {
	path := os.Getenv("VERIF_FUZZ_INPUT")
	if path == "" {
		t.Skip("no fuzz input")
	}
	defer func() { mu.Lock(); cur.stop(); cur = nil; mu.Unlock() }()
	raw, err := os.ReadFile(path)
	if err != nil {
		t.Fatalf("INFRA: %v", err)
	}
	data, err := parseCorpus(raw)
	if err != nil {
		t.Fatalf("INFRA: %v", err)
	}
	info()
	if len(data) == 0 {
		return
	}
	g := &Gen{S: &ByteSrc{B: data[1:]}, Keys: keys, Paths: paths}
	c := &Case{Reqs: []Req{g.Build(Methods[int(data[0])%len(Methods)])}}
	check(t, c, "TestC20")
}

// parseCorpus reads the "go test fuzz v1" file format for a single []byte argument.
func parseCorpus(raw []byte) ([]byte, error) {
	lines := strings.Split(strings.TrimSpace(string(raw)), "\n")
	if len(lines) < 2 || !strings.HasPrefix(lines[0], "go test fuzz v1") {
		return nil, fmt.Errorf("not a corpus file")
	}
	l := strings.TrimSpace(lines[1])
	if !strings.HasPrefix(l, "[]byte(") || !strings.HasSuffix(l, ")") {
		return nil, fmt.Errorf("unexpected corpus line %q", l)
	}
	s, err := strconv.Unquote(l[len("[]byte(") : len(l)-1])
	if err != nil {
		return nil, err
	}

	return []byte(s), nil
}
