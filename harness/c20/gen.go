// Package c20 decides C20: no client request can crash the daemon.
package c20

import (
	"bytes"
	"fmt"
	"strings"

	pb "github.com/wealdtech/eth2-signer-api/pb/v1"
	"google.golang.org/protobuf/proto"

	"verif/harness/vkit"
)

// Req is one wire request: the method and the marshalled protobuf message.
type Req struct {
	Method string `json:"method"`
	Wire   []byte `json:"wire"`
	Client string `json:"client"`         // authenticated name presented to the handler
	Note   string `json:"note,omitempty"` // what was mutated (for the reader)
}

// Case is a sequence of requests.
type Case struct {
	Reqs []Req `json:"reqs"`
	// Parallel sends the requests of the case at the same time instead of one after the other.
	Parallel bool `json:"parallel,omitempty"`
}

// Methods are the client-facing methods plus the key-generation ones (called as a non-peer).
var Methods = []string{
	"Signer/Sign", "Signer/Multisign", "Signer/SignBeaconAttestation", "Signer/SignBeaconAttestations", "Signer/SignBeaconProposal",
	"Lister/ListAccounts", "AccountManager/Unlock", "AccountManager/Lock", "AccountManager/Generate", "WalletManager/Unlock", "WalletManager/Lock",
	"DKG/Prepare", "DKG/Execute", "DKG/Commit", "DKG/Abort", "DKG/Contribute",
}

// Src is a source of structured choices: rapid draws in the property test, fuzz bytes in the
// native fuzz target.
type Src interface {
	Int(n int, label string) int // uniform in [0,n)
	U64(label string) uint64
}

var lengths = []int{0, 1, 3, 4, 31, 32, 33, 47, 48, 49, 96, 4096}

var u64s = []uint64{0, 1, 2, 1<<31 - 1, 1 << 31, 1<<32 - 1, 1 << 32, 1<<63 - 1, 1 << 63, 1<<64 - 2, 1<<64 - 1}

var u32s = []uint32{0, 1, 2, 3, 4, 1 << 16, 1<<31 - 1, 1 << 31, 1<<32 - 2, 1<<32 - 1}

// Gen builds requests from structured choices.
type Gen struct {
	S       Src
	Keys    [][]byte // public keys of existing accounts
	Paths   []string // wallet/account paths of existing accounts
	Counter uint64
	hostile int
}

func (g *Gen) bytesField(valid []byte, label string) []byte {
	switch k := g.S.Int(10, label+"_kind"); {
	case k < 6:
		return valid
	case k < 7:
		g.hostile++

		return nil
	default:
		g.hostile++
		n := lengths[g.S.Int(len(lengths), label+"_len")]
		b := make([]byte, n)
		fill := []byte{0x00, 0xff, 0x01, 0xaa}[g.S.Int(4, label+"_fill")]
		for i := range b {
			b[i] = fill
		}
		if n >= 4 && len(valid) >= 4 && g.S.Int(2, label+"_pfx") == 0 {
			copy(b, valid[:4])
		}

		return b
	}
}

func (g *Gen) u64(label string) uint64 {
	if g.S.Int(3, label+"_x") == 0 {
		return g.S.U64(label)
	}
	g.hostile++

	return u64s[g.S.Int(len(u64s), label)]
}

var hostilePaths = []string{"", "/", "/x", "x/", "Wallet 1", "Wallet 1/", "Wallet 1/(", "Wallet 1/[", "Wallet 1/.*", "Wallet 1/Account 0/extra", "No Such Wallet/a", "Wallet 3/none", "Wallet 1/\x00", "Wallet 1/" + strings.Repeat("a", 5000), strings.Repeat("w", 70000) + "/a", "Wallet 1/(?i)account 1", "Wallet 1/Account [0-9]+$", "Wallet 3/new"}

// pathAtoms are the pieces a composed hostile path is made of: regular-expression metacharacters on
// their own and in fragments, separators, and ordinary text.
var pathAtoms = []string{"^", "$", "(", ")", "[", "]", "*", "+", "?", "|", "\\", ".", "{", "}", "{1}", "{,}", "(?i)", "(?P<n>", "\\d", "\\D", "\\", "[^", "-", "/", " ", "\x00", "a", "Account", "Account 0", "0", "\u00e9"}

var pathWallets = []string{"", "Wallet 1", "Wallet 1", "Wallet 3", "No Such Wallet", "^", ".*", "wallet 1"}

// hostilePath draws from the fixed table or composes wallet "/" atoms.
func (g *Gen) hostilePath(label string) string {
	if g.S.Int(2, label+"_how") == 0 {
		return hostilePaths[g.S.Int(len(hostilePaths), label+"_h")]
	}
	w := pathWallets[g.S.Int(len(pathWallets), label+"_w")]
	n := g.S.Int(5, label+"_n")
	var sb strings.Builder
	for i := 0; i < n; i++ {
		sb.WriteString(pathAtoms[g.S.Int(len(pathAtoms), label+"_a")])
	}
	if g.S.Int(8, label+"_noslash") == 0 {
		return w + sb.String()
	}

	return w + "/" + sb.String()
}

func (g *Gen) account(label string) string {
	if g.S.Int(10, label+"_kind") < 6 {
		return g.Paths[g.S.Int(len(g.Paths), label)]
	}
	g.hostile++

	return g.hostilePath(label)
}

func (g *Gen) pubKey(label string) []byte {
	valid := g.Keys[g.S.Int(len(g.Keys), label)]

	return g.bytesField(valid, label)
}

func (g *Gen) domain(prefix byte, label string) []byte {
	d := make([]byte, 32)
	switch g.S.Int(6, label+"_pfx") {
	case 0, 1, 2:
		d[0] = prefix
	case 3:
		d[0] = 4 // voluntary exit
	case 4:
		d[0] = byte(g.S.Int(256, label+"_rnd"))
	default:
		d[0] = 1 - prefix&1
	}

	return g.bytesField(d, label)
}

func (g *Gen) root(tag byte) []byte {
	g.Counter++
	r := make([]byte, 32)
	r[0], r[31] = tag, byte(g.Counter)
	r[1] = byte(g.Counter >> 8)

	return g.bytesField(r, fmt.Sprintf("root%d", tag))
}

func (g *Gen) sign() *pb.SignRequest {
	r := &pb.SignRequest{Data: g.root(7), Domain: g.domain(2, "sdom")}
	switch g.S.Int(5, "sid") {
	case 0, 1:
		r.Id = &pb.SignRequest_Account{Account: g.account("sacc")}
	case 2, 3:
		r.Id = &pb.SignRequest_PublicKey{PublicKey: g.pubKey("skey")}
	default:
		g.hostile++
	}

	return r
}

func (g *Gen) checkpoint(label string) *pb.Checkpoint {
	if g.S.Int(8, label+"_absent") == 0 {
		g.hostile++

		return nil
	}
	g.Counter++

	return &pb.Checkpoint{Epoch: g.u64(label + "_epoch"), Root: g.root(3)}
}

func (g *Gen) att() *pb.SignBeaconAttestationRequest {
	r := &pb.SignBeaconAttestationRequest{Domain: g.domain(1, "adom")}
	switch g.S.Int(5, "aid") {
	case 0, 1:
		r.Id = &pb.SignBeaconAttestationRequest_Account{Account: g.account("aacc")}
	case 2, 3:
		r.Id = &pb.SignBeaconAttestationRequest_PublicKey{PublicKey: g.pubKey("akey")}
	default:
		g.hostile++
	}
	if g.S.Int(8, "adata_absent") == 0 {
		g.hostile++

		return r
	}
	r.Data = &pb.AttestationData{Slot: g.u64("aslot"), CommitteeIndex: g.u64("aidx"), BeaconBlockRoot: g.root(1), Source: g.checkpoint("asrc"), Target: g.checkpoint("atgt")}

	return r
}

func (g *Gen) batchSize() int {
	switch k := g.S.Int(20, "bsz"); {
	case k < 2:
		g.hostile++

		return 0
	case k < 14:
		return 1 + g.S.Int(4, "bsz_small")
	case k < 19:
		return 5 + g.S.Int(60, "bsz_mid")
	default:
		g.hostile++

		return 2000
	}
}

// Build constructs one request for the method.
func (g *Gen) Build(method string) Req {
	g.hostile = 0
	var m proto.Message
	client := "client1"
	switch method {
	case "Signer/Sign":
		m = g.sign()
	case "Signer/Multisign":
		r := &pb.MultisignRequest{}
		n := g.batchSize()
		dup := g.S.Int(6, "dupkeys") == 0
		for i := 0; i < n; i++ {
			s := g.sign()
			if dup && i > 0 {
				s.Id = r.Requests[0].GetId()
			}
			r.Requests = append(r.Requests, s)
		}
		m = r
	case "Signer/SignBeaconAttestation":
		m = g.att()
	case "Signer/SignBeaconAttestations":
		r := &pb.SignBeaconAttestationsRequest{}
		n := g.batchSize()
		dup := g.S.Int(6, "dupkeys") == 0
		for i := 0; i < n; i++ {
			a := g.att()
			if dup && i > 0 {
				a.Id = r.Requests[0].GetId()
			}
			r.Requests = append(r.Requests, a)
		}
		m = r
	case "Signer/SignBeaconProposal":
		r := &pb.SignBeaconProposalRequest{Domain: g.domain(0, "pdom")}
		switch g.S.Int(5, "pid") {
		case 0, 1:
			r.Id = &pb.SignBeaconProposalRequest_Account{Account: g.account("pacc")}
		case 2, 3:
			r.Id = &pb.SignBeaconProposalRequest_PublicKey{PublicKey: g.pubKey("pkey")}
		}
		if g.S.Int(8, "pdata_absent") != 0 {
			r.Data = &pb.BeaconBlockHeader{Slot: g.u64("pslot"), ProposerIndex: g.u64("pidx"), ParentRoot: g.root(4), StateRoot: g.root(5), BodyRoot: g.root(6)}
		} else {
			g.hostile++
		}
		m = r
	case "Lister/ListAccounts":
		r := &pb.ListAccountsRequest{}
		n := []int{0, 1, 1, 2, 3, 5, 2000}[g.S.Int(7, "npaths")]
		for i := 0; i < n; i++ {
			if g.S.Int(2, "lp") == 0 {
				r.Paths = append(r.Paths, []string{"Wallet 1", "Wallet 3", "Wallet 1/Account .*", "Wallet 1/.*1"}[g.S.Int(4, "lpv")])
			} else {
				g.hostile++
				r.Paths = append(r.Paths, g.hostilePath("lph"))
			}
		}
		m = r
	case "AccountManager/Unlock":
		m = &pb.UnlockAccountRequest{Account: g.account("uacc"), Passphrase: g.bytesField([]byte("pass"), "upass")}
	case "AccountManager/Lock":
		m = &pb.LockAccountRequest{Account: g.account("lacc")}
	case "AccountManager/Generate":
		g.Counter++
		acc := []string{fmt.Sprintf("Wallet 1/gen %d", g.Counter), fmt.Sprintf("Wallet 3/gen %d", g.Counter), "Wallet 1/Account 0"}[g.S.Int(3, "gwallet")]
		if g.S.Int(4, "gacc_hostile") == 0 {
			acc = g.account("gacc")
		}
		p := u32s[g.S.Int(len(u32s), "gparticipants")]
		th := u32s[g.S.Int(len(u32s), "gthreshold")]
		if g.S.Int(3, "gsame") == 0 {
			th = p
		}
		if p > 3 {
			g.hostile++
		}
		m = &pb.GenerateRequest{Account: acc, Passphrase: g.bytesField([]byte("pass"), "gpass"), Participants: p, SigningThreshold: th}
	case "WalletManager/Unlock":
		m = &pb.UnlockWalletRequest{Wallet: strings.SplitN(g.account("wu"), "/", 2)[0], Passphrase: g.bytesField(nil, "wupass")}
	case "WalletManager/Lock":
		m = &pb.LockWalletRequest{Wallet: strings.SplitN(g.account("wl"), "/", 2)[0]}
	case "DKG/Prepare":
		client = []string{"client1", "", "someone"}[g.S.Int(3, "dkgclient")]
		r := &pb.PrepareRequest{Account: g.account("dacc"), Threshold: u32s[g.S.Int(len(u32s), "dth")], Passphrase: g.bytesField([]byte("p"), "dpass")}
		n := []int{0, 1, 2, 3, 500}[g.S.Int(5, "dparts")]
		for i := 0; i < n; i++ {
			r.Participants = append(r.Participants, &pb.Endpoint{Id: g.u64("did"), Name: "signer-test01", Port: u32s[g.S.Int(len(u32s), "dport")]})
		}
		m = r
	case "DKG/Execute":
		client = []string{"client1", "", "someone"}[g.S.Int(3, "dkgclient")]
		m = &pb.ExecuteRequest{Account: g.account("dacc")}
	case "DKG/Commit":
		client = []string{"client1", "", "someone"}[g.S.Int(3, "dkgclient")]
		m = &pb.CommitRequest{Account: g.account("dacc"), ConfirmationData: g.bytesField(bytes.Repeat([]byte{1}, 32), "dconf")}
	case "DKG/Abort":
		client = []string{"client1", "", "someone"}[g.S.Int(3, "dkgclient")]
		m = &pb.AbortRequest{Account: g.account("dacc")}
	case "DKG/Contribute":
		client = []string{"client1", "", "someone"}[g.S.Int(3, "dkgclient")]
		r := &pb.ContributeRequest{Account: g.account("dacc"), Secret: g.bytesField(bytes.Repeat([]byte{1}, 32), "dsecret")}
		n := []int{0, 1, 2, 3, 300}[g.S.Int(5, "dvvec")]
		for i := 0; i < n; i++ {
			r.VerificationVector = append(r.VerificationVector, g.bytesField(g.Keys[0], "dvv"))
		}
		m = r
	}
	b, err := proto.Marshal(m)
	if err != nil {
		b = nil
	}

	return Req{Method: method, Wire: b, Client: client, Note: fmt.Sprintf("%d hostile choices", g.hostile)}
}

// ByteSrc adapts a byte string (native fuzzing) to Src.
type ByteSrc struct {
	B []byte
	i int
}

func (s *ByteSrc) next() byte {
	if s.i >= len(s.B) {
		return 0
	}
	b := s.B[s.i]
	s.i++

	return b
}

// Int implements Src.
func (s *ByteSrc) Int(n int, _ string) int {
	if n <= 1 {
		return 0
	}
	v := int(s.next())
	if n > 256 {
		v = v<<8 | int(s.next())
	}

	return v % n
}

// U64 implements Src.
func (s *ByteSrc) U64(_ string) uint64 {
	var v uint64
	for i := 0; i < 8; i++ {
		v = v<<8 | uint64(s.next())
	}

	return v
}

var _ = vkit.Init
