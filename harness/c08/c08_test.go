// Package c08 decides C08: every returned signature verifies under the addressed account's key over
// the independently computed signing root of exactly the submitted data, one entry per request.
package c08

import (
	"encoding/binary"
	"encoding/json"
	"fmt"
	"runtime"
	"sync"
	"testing"
	"time"

	memfetcher "github.com/attestantio/dirk/services/fetcher/mem"
	"pgregory.net/rapid"

	"verif/harness/vkit"
)

// NKeys is the size of the key pool (batches name distinct keys).
const NKeys = 620

const client = "client1"

// Entry is one request (or batch position).
type Entry struct {
	// Refusable: the entry is built so that the rules refuse it (slashable domain on a generic
	// endpoint, target not above source on the attestation endpoint): batches with mixed verdicts.
	Refusable bool          `json:"refusable,omitempty"`
	Key       int           `json:"key"`
	ByKey     bool          `json:"by_key,omitempty"`
	Att       *vkit.Att     `json:"att,omitempty"`
	Prop      *vkit.Prop    `json:"prop,omitempty"`
	Gen       *vkit.Generic `json:"gen,omitempty"`
}

// Req is one call to an endpoint.
type Req struct {
	Kind    string  `json:"kind"` // attest | attests | propose | sign | multisign
	ViaGRPC bool    `json:"via_grpc,omitempty"`
	Share   string  `json:"share,omitempty"` // how batch entries relate: unique | identical | one-field
	Entries []Entry `json:"entries"`
}

// Case is a sequence of calls under a given GOMAXPROCS.
type Case struct {
	Procs int   `json:"gomaxprocs"`
	Reqs  []Req `json:"reqs"`
}

var (
	once    sync.Once
	world   *vkit.World
	fetcher *memfetcher.Service
	initErr error
)

func setup() error {
	once.Do(func() {
		world, initErr = vkit.SimpleWorld(NKeys)
		if initErr != nil {
			return
		}
		fetcher, initErr = vkit.NewFetcher(world)
	})

	return initErr
}

func rnd32(t *rapid.T, label string, uniq uint64) []byte {
	b := make([]byte, 32)
	binary.LittleEndian.PutUint64(b[:8], uniq)
	v := rapid.Uint64().Draw(t, label)
	binary.LittleEndian.PutUint64(b[8:16], v)
	binary.LittleEndian.PutUint64(b[24:32], ^v)

	return b
}

var extremes = []uint64{0, 1, 1<<32 - 1, 1 << 32, 1<<63 - 1, 1 << 63, 1<<64 - 2, 1<<64 - 1}

func anyU64(t *rapid.T, label string) uint64 {
	if rapid.Bool().Draw(t, label+"_x") {
		return rapid.SampledFrom(extremes).Draw(t, label)
	}

	return rapid.Uint64().Draw(t, label)
}

var genericPrefixes = [][4]byte{{2, 0, 0, 0}, {3, 0, 0, 0}, {5, 0, 0, 0}, {6, 0, 0, 0}, {7, 0, 0, 0}, {8, 0, 0, 0}, {9, 0, 0, 0}, {10, 0, 0, 0}, {0, 0, 0, 1}, {0xff, 0xff, 0xff, 0xff}, {1, 0, 0, 1}}

func domain(t *rapid.T, prefix [4]byte) []byte {
	d := make([]byte, 32)
	copy(d, prefix[:])
	v := rapid.Uint64().Draw(t, "domsfx")
	binary.LittleEndian.PutUint64(d[4:12], v)
	binary.LittleEndian.PutUint64(d[20:28], v*31)

	return d
}

type genState struct {
	uniq    uint64
	lastTgt map[int]uint64
	lastSrc map[int]uint64
	hasAtt  map[int]bool
	slot    map[int]uint64
	hasSlot map[int]bool
}

func (g *genState) att(t *rapid.T, key int) *vkit.Att {
	g.uniq++
	var src, tgt uint64
	if !g.hasAtt[key] {
		switch rapid.IntRange(0, 3).Draw(t, "first") {
		case 0:
			src, tgt = 0, 0
		case 1:
			src, tgt = 0, 1
		default:
			src = rapid.Uint64Range(0, 1<<62).Draw(t, "src0")
			tgt = src + rapid.Uint64Range(1, 1<<20).Draw(t, "tgtd0")
		}
	} else {
		src = g.lastSrc[key] + rapid.SampledFrom([]uint64{0, 0, 1, 2, 1000}).Draw(t, "srcd")
		tgt = g.lastTgt[key] + rapid.SampledFrom([]uint64{1, 1, 2, 1 << 30}).Draw(t, "tgtd")
		if tgt <= src {
			tgt = src + 1
		}
		if tgt > 1<<63-1 {
			tgt, src = 1<<63-1, g.lastSrc[key]
		}
	}
	g.hasAtt[key], g.lastSrc[key], g.lastTgt[key] = true, src, tgt

	return &vkit.Att{
		Slot: anyU64(t, "slot"), Index: anyU64(t, "index"),
		BlockRoot: rnd32(t, "br", g.uniq), SrcEpoch: src, SrcRoot: rnd32(t, "sr", g.uniq), TgtEpoch: tgt, TgtRoot: rnd32(t, "tr", g.uniq),
		Domain: domain(t, [4]byte{1, 0, 0, 0}),
	}
}

func (g *genState) prop(t *rapid.T, key int) *vkit.Prop {
	g.uniq++
	var slot uint64
	if !g.hasSlot[key] {
		slot = rapid.SampledFrom([]uint64{0, 1, 77, 1 << 40, 1<<63 - 5}).Draw(t, "slot0")
	} else {
		slot = g.slot[key] + rapid.SampledFrom([]uint64{1, 1, 2, 1 << 20}).Draw(t, "slotd")
		if slot > 1<<63-1 {
			slot = 1<<63 - 1
		}
	}
	g.hasSlot[key], g.slot[key] = true, slot

	return &vkit.Prop{Slot: slot, ProposerIndex: anyU64(t, "proposer"), ParentRoot: rnd32(t, "pr", g.uniq), StateRoot: rnd32(t, "st", g.uniq), BodyRoot: rnd32(t, "bd", g.uniq), Domain: domain(t, [4]byte{0, 0, 0, 0})}
}

func (g *genState) generic(t *rapid.T) *vkit.Generic {
	g.uniq++

	return &vkit.Generic{Data: rnd32(t, "gd", g.uniq), Domain: domain(t, rapid.SampledFrom(genericPrefixes).Draw(t, "gpfx"))}
}

func batchSize(t *rapid.T, p int) int {
	k := rapid.IntRange(0, 99).Draw(t, "bs_class")
	switch {
	case k < 35:
		return rapid.IntRange(1, 3).Draw(t, "bs")
	case k < 75:
		c := []int{p - 1, p, p + 1, 2*p - 1, 2*p + 1, 3 * p, 3*p + 1}
		n := rapid.SampledFrom(c).Draw(t, "bs")
		if n < 1 {
			n = 1
		}

		return n
	case k < 92:
		return rapid.IntRange(4, 99).Draw(t, "bs")
	default:
		return rapid.IntRange(100, 600).Draw(t, "bs")
	}
}

func genCase(t *rapid.T) *Case {
	c := &Case{Procs: rapid.IntRange(1, 16).Draw(t, "gomaxprocs")}
	g := &genState{lastTgt: map[int]uint64{}, lastSrc: map[int]uint64{}, hasAtt: map[int]bool{}, slot: map[int]uint64{}, hasSlot: map[int]bool{}}
	nreq := rapid.IntRange(1, 5).Draw(t, "nreq")
	for i := 0; i < nreq; i++ {
		kind := rapid.SampledFrom([]string{"attest", "attests", "attests", "attests", "propose", "sign", "multisign", "multisign"}).Draw(t, "kind")
		r := Req{Kind: kind, ViaGRPC: rapid.Bool().Draw(t, "grpc")}
		n := 1
		if kind == "attests" || kind == "multisign" {
			n = batchSize(t, c.Procs)
		}
		// distinct keys: a random start and stride over the pool
		start := rapid.IntRange(0, NKeys-1).Draw(t, "kstart")
		stride := rapid.SampledFrom([]int{1, 3, 7, 11}).Draw(t, "kstride") // all coprime with 620
		// how the entries of a batch relate: unique data per entry, the same duty for every validator
		// (what a real beacon node sends), or the same duty with one field changed per entry
		share := "unique"
		if n > 1 {
			share = rapid.SampledFrom([]string{"unique", "unique", "identical", "one-field", "one-field"}).Draw(t, "share")
		}
		r.Share = share
		var baseAtt *vkit.Att
		var baseGen *vkit.Generic
		for j := 0; j < n; j++ {
			key := (start + j*stride) % NKeys
			e := Entry{Key: key, ByKey: rapid.Bool().Draw(t, "bykey")}
			switch kind {
			case "attest", "attests":
				a := g.att(t, key)
				if share != "unique" {
					if baseAtt == nil {
						baseAtt = a
					} else {
						// same duty; epochs stay those drawn for this key so that the request advances
						c := *baseAtt
						c.SrcEpoch, c.TgtEpoch = a.SrcEpoch, a.TgtEpoch
						if share == "one-field" {
							switch rapid.IntRange(0, 5).Draw(t, "field") {
							case 0:
								c.Slot++
							case 1:
								c.Index++
							case 2:
								c.BlockRoot = a.BlockRoot
							case 3:
								c.SrcRoot = a.SrcRoot
							case 4:
								c.TgtRoot = a.TgtRoot
							default:
								c.Domain = a.Domain
							}
						}
						a = &c
					}
				}
				e.Att = a
			case "propose":
				e.Prop = g.prop(t, key)
			default:
				gg := g.generic(t)
				if share != "unique" {
					if baseGen == nil {
						baseGen = gg
					} else {
						c := *baseGen
						if share == "one-field" {
							if rapid.Bool().Draw(t, "gfield") {
								c.Data = gg.Data
							} else {
								c.Domain = gg.Domain
							}
						}
						gg = &c
					}
				}
				e.Gen = gg
			}
			if n > 1 && rapid.IntRange(0, 9).Draw(t, "refusable") == 0 {
				switch {
				case e.Gen != nil:
					g2 := *e.Gen
					g2.Domain = domain(t, [4]byte{byte(rapid.IntRange(0, 1).Draw(t, "slashable_pfx")), 0, 0, 0})
					e.Gen, e.Refusable = &g2, true
				case e.Att != nil && kind == "attests":
					a2 := *e.Att
					a2.SrcEpoch = a2.TgtEpoch // target not above source: refused, state untouched
					if a2.TgtEpoch == 0 {
						a2.SrcEpoch, a2.TgtEpoch = 5, 5
					}
					e.Att, e.Refusable = &a2, true
				}
			}
			r.Entries = append(r.Entries, e)
		}
		c.Reqs = append(c.Reqs, r)
	}

	return c
}

type outcome struct {
	sigs      int
	bigOK     bool
	extreme   bool
	summaries []map[string]any
}

func hasExtreme(e *Entry) bool {
	in := func(v uint64) bool {
		for _, x := range extremes {
			if v == x {
				return true
			}
		}

		return false
	}
	switch {
	case e.Att != nil:
		return in(e.Att.Slot) || in(e.Att.Index)
	case e.Prop != nil:
		return in(e.Prop.ProposerIndex)
	}

	return false
}

func run(c *Case) (*outcome, *vkit.Violation, error) {
	if err := setup(); err != nil {
		return nil, nil, err
	}
	old := runtime.GOMAXPROCS(c.Procs)
	defer runtime.GOMAXPROCS(old)
	st, err := vkit.NewStack(vkit.StackOpts{World: world, SharedFetcher: fetcher, Permissions: vkit.AllPermissions(client)})
	if err != nil {
		return nil, nil, err
	}
	defer st.Close()
	o := &outcome{}
	for ri, r := range c.Reqs {
		ts := make([]vkit.Target, len(r.Entries))
		for i, e := range r.Entries {
			ts[i] = vkit.TargetOf(world.Accounts[e.Key], e.ByKey)
		}
		var rs []vkit.Res
		switch r.Kind {
		case "attest":
			rs = []vkit.Res{st.Attest(client, "", ts[0], r.ViaGRPC, r.Entries[0].Att)}
		case "attests":
			as := make([]*vkit.Att, len(r.Entries))
			for i := range r.Entries {
				as[i] = r.Entries[i].Att
			}
			rs = st.AttestBatch(client, "", ts, r.ViaGRPC, as)
		case "propose":
			rs = []vkit.Res{st.Propose(client, "", ts[0], r.ViaGRPC, r.Entries[0].Prop)}
		case "sign":
			rs = []vkit.Res{st.SignGeneric(client, "", ts[0], r.ViaGRPC, r.Entries[0].Gen)}
		case "multisign":
			gs := make([]*vkit.Generic, len(r.Entries))
			for i := range r.Entries {
				gs[i] = r.Entries[i].Gen
			}
			rs = st.Multisign(client, "", ts, r.ViaGRPC, gs)
		default:
			return o, nil, fmt.Errorf("unknown kind %q", r.Kind)
		}
		if len(rs) != len(r.Entries) {
			return o, vkit.Violf("entry-count-mismatch", "request %d (%s, grpc=%v, gomaxprocs=%d): %d entries in the response for %d requests", ri, r.Kind, r.ViaGRPC, c.Procs, len(rs), len(r.Entries)), nil
		}
		ok := 0
		for i, res := range rs {
			e := &r.Entries[i]
			if res.OK() != res.Released() {
				return o, vkit.Violf("state-signature-mismatch", "request %d position %d: state %s with %d signature bytes", ri, i, res.State, len(res.Sig)), nil
			}
			if !res.Released() {
				continue
			}
			ok++
			var root [32]byte
			switch {
			case e.Att != nil:
				root = vkit.SigningRoot(vkit.AttDataRoot(e.Att), e.Att.Domain)
			case e.Prop != nil:
				root = vkit.SigningRoot(vkit.PropDataRoot(e.Prop), e.Prop.Domain)
			default:
				var d [32]byte
				copy(d[:], e.Gen.Data)
				root = vkit.SigningRoot(d, e.Gen.Domain)
			}
			if err := vkit.VerifySig(world.Accounts[e.Key].PubKey, root, res.Sig); err != nil {
				return o, vkit.Violf("signature-invalid."+r.Kind, "request %d (%s, %d entries, grpc=%v, gomaxprocs=%d) position %d (key %d, by_key=%v): %v", ri, r.Kind, len(r.Entries), r.ViaGRPC, c.Procs, i, e.Key, e.ByKey, err), nil
			}
			o.sigs++
			if hasExtreme(e) {
				o.extreme = true
			}
		}
		want := 0
		for i := range r.Entries {
			if !r.Entries[i].Refusable {
				want++
			}
		}
		if ok == want && ok > 0 && len(r.Entries) > c.Procs {
			o.bigOK = true
		}
		o.summaries = append(o.summaries, map[string]any{"kind": r.Kind, "entries": len(r.Entries), "via_grpc": r.ViaGRPC, "succeeded": ok, "first_entry": r.Entries[0]})
		vkit.S.Class("endpoint-" + r.Kind)
		if len(r.Entries) > c.Procs && r.Share != "" && r.Share != "unique" {
			vkit.S.Class("batch-sharing-data-" + r.Share)
		}
		if len(r.Entries) >= 100 {
			vkit.S.Class("batch>=100")
		}
		if ok < len(r.Entries) {
			vkit.S.Class("request-with-unsigned-positions")
		}
		if ok > 0 && ok < len(r.Entries) {
			vkit.S.Class("batch-with-mixed-verdicts")
		}
	}

	return o, nil, nil
}

// TestC08 decides C08.
func TestC08(t *testing.T) {
	defer vkit.Flush()
	for _, r := range vkit.ReplayFiles("TestC08") {
		var c Case
		if err := json.Unmarshal(r.Case, &c); err != nil {
			t.Fatalf("bad replay case: %v", err)
		}
		_, v, err := run(&c)
		if err != nil {
			t.Fatalf("replay infrastructure error: %v", err)
		}
		vkit.S.Class("replayed-regression-cases")
		vkit.Report(t, "C08", "TestC08", &c, v)
	}
	if vkit.ReplayOnly() {
		return
	}
	rapid.Check(t, func(rt *rapid.T) {
		c := genCase(rt)
		stop := vkit.Watch(c, 180*time.Second)
		o, v, err := run(c)
		stop()
		if err != nil {
			rt.Fatalf("INFRA: %v", err)
		}
		vkit.S.Eval()
		vkit.S.ClassN("signatures-verified", o.sigs)
		vkit.S.Class(fmt.Sprintf("gomaxprocs-%02d", c.Procs))
		nt := o.bigOK || o.extreme
		if nt {
			vkit.S.Nontrivial(c)
		}
		if o.bigOK {
			vkit.S.Class("batch-larger-than-gomaxprocs-all-signed")
		}
		vkit.S.Sample(map[string]any{"gomaxprocs": c.Procs, "requests": o.summaries}, o.bigOK)
		vkit.Report(rt, "C08", "TestC08", c, v)
	})
}
