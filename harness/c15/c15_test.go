// Package c15 decides C15: concurrent signing requests with overlapping key lists always complete.
package c15

import (
	"context"
	"encoding/binary"
	"encoding/json"
	"fmt"
	"runtime"
	"sort"
	"strings"
	"sync"
	"testing"
	"time"

	memfetcher "github.com/attestantio/dirk/services/fetcher/mem"
	"github.com/attestantio/dirk/services/locker"
	"pgregory.net/rapid"

	"verif/harness/vkit"
)

const (
	nKeys  = 4
	client = "client1"
)

var (
	once    sync.Once
	world   *vkit.World
	fetcher *memfetcher.Service
	initErr error
)

func setup() error {
	once.Do(func() {
		world, initErr = vkit.SimpleWorld(nKeys)
		if initErr == nil {
			fetcher, initErr = vkit.NewFetcher(world)
		}
	})

	return initErr
}

// Req is one concurrent request: an ordered selection of keys.
type Req struct {
	Kind string `json:"kind"` // attests | attest | propose | multisign
	Keys []int  `json:"keys"`
	// CancelAt = n > 0: the request's context is cancelled (its client goes away) at the moment the
	// request has taken its n-th key lock.  The request may then end early; nobody else may hang.
	CancelAt int `json:"cancel_at,omitempty"`
}

// Round is a set of requests started together, with a steering plan.
type Round struct {
	Reqs  []Req       `json:"reqs"`
	Steer map[int]int `json:"steer,omitempty"` // x -> y (see RecordingLocker.Steer)
}

// Case is a sequence of rounds on one stack.
type Case struct {
	Procs  int     `json:"gomaxprocs"`
	Rounds []Round `json:"rounds"`
}

func genKeys(t *rapid.T, n int) []int {
	perm := rapid.Permutation([]int{0, 1, 2, 3}).Draw(t, "perm")

	return perm[:n]
}

func genRound(t *rapid.T) Round {
	r := Round{Steer: map[int]int{}}
	shape := rapid.SampledFrom([]string{"opposite", "nested", "crossing", "random", "random"}).Draw(t, "shape")
	switch shape {
	case "opposite":
		ks := genKeys(t, rapid.IntRange(2, 4).Draw(t, "n"))
		rev := make([]int, len(ks))
		for i := range ks {
			rev[len(ks)-1-i] = ks[i]
		}
		r.Reqs = []Req{{Kind: "attests", Keys: ks}, {Kind: "attests", Keys: rev}}
	case "nested":
		ks := genKeys(t, 4)
		r.Reqs = []Req{{Kind: "attests", Keys: ks}, {Kind: "attests", Keys: []int{ks[2], ks[1]}}}
	case "crossing":
		ks := genKeys(t, 4)
		r.Reqs = []Req{{Kind: "attests", Keys: []int{ks[0], ks[1], ks[2]}}, {Kind: "attests", Keys: []int{ks[2], ks[3], ks[0]}}}
	}
	extra := rapid.IntRange(0, 4).Draw(t, "extra")
	if shape == "random" && extra < 2 {
		extra = 2
	}
	for i := 0; i < extra && len(r.Reqs) < 6; i++ {
		kind := rapid.SampledFrom([]string{"attests", "attests", "multisign", "attest", "propose"}).Draw(t, "kind")
		n := 1
		if kind == "attests" || kind == "multisign" {
			n = rapid.IntRange(2, 4).Draw(t, "nk")
		}
		keys := genKeys(t, n)
		if n >= 2 && rapid.IntRange(0, 9).Draw(t, "odd") == 0 {
			// a request the ruler refuses early: a key named twice (at a drawn position)
			keys = append(keys, keys[rapid.IntRange(0, len(keys)-1).Draw(t, "dup_of")])
		}
		r.Reqs = append(r.Reqs, Req{Kind: kind, Keys: keys})
	}
	if rapid.IntRange(0, 3).Draw(t, "cancel") == 0 {
		qi := rapid.IntRange(0, len(r.Reqs)-1).Draw(t, "cancel_req")
		r.Reqs[qi].CancelAt = rapid.IntRange(1, len(r.Reqs[qi].Keys)).Draw(t, "cancel_at")
	}
	// steering: pairs of multi-key requests wait for each other after their first lock
	if rapid.IntRange(0, 9).Draw(t, "steer") < 8 && len(r.Reqs) >= 2 {
		x := rapid.IntRange(0, len(r.Reqs)-1).Draw(t, "sx")
		y := rapid.IntRange(0, len(r.Reqs)-1).Draw(t, "sy")
		if x != y {
			r.Steer[x] = y
			if rapid.Bool().Draw(t, "mutual") {
				r.Steer[y] = x
			}
		}
	}

	return r
}

func rootOf(a, b uint64, s byte) []byte {
	r := make([]byte, 32)
	binary.LittleEndian.PutUint64(r, a)
	binary.LittleEndian.PutUint64(r[8:], b)
	r[31] = s

	return r
}

// lockOrderCycle looks for a cycle in the lock-order graph built from edges that were taken while
// the request did not hold the gate.
func lockOrderCycle(log []vkit.LockEvent) (string, bool) {
	held := map[int][]string{}
	edges := map[string]map[string]bool{}
	for _, e := range log {
		switch e.Op {
		case "lock": // an attempt while holding others
			if e.Gate {
				continue
			}
			for _, h := range held[e.Req] {
				if h == e.Key {
					continue
				}
				if edges[h] == nil {
					edges[h] = map[string]bool{}
				}
				edges[h][e.Key] = true
			}
		case "locked":
			held[e.Req] = append(held[e.Req], e.Key)
		case "unlock":
			hs := held[e.Req]
			for i := range hs {
				if hs[i] == e.Key {
					held[e.Req] = append(hs[:i:i], hs[i+1:]...)

					break
				}
			}
		}
	}
	// DFS
	state := map[string]int{}
	var path []string
	var found string
	var visit func(string) bool
	visit = func(n string) bool {
		state[n] = 1
		path = append(path, n)
		var next []string
		for m := range edges[n] {
			next = append(next, m)
		}
		sort.Strings(next)
		for _, m := range next {
			if state[m] == 1 {
				found = strings.Join(append(path, m), " -> ")

				return true
			}
			if state[m] == 0 && visit(m) {
				return true
			}
		}
		state[n] = 2
		path = path[:len(path)-1]

		return false
	}
	var nodes []string
	for n := range edges {
		nodes = append(nodes, n)
	}
	sort.Strings(nodes)
	for _, n := range nodes {
		if state[n] == 0 && visit(n) {
			return found, true
		}
	}

	return "", false
}

// unreleased reports keys acquired by finished requests but never released.
func unreleased(log []vkit.LockEvent) []string {
	cnt := map[string]int{}
	for _, e := range log {
		switch e.Op {
		case "locked":
			cnt[fmt.Sprintf("req%d:%s", e.Req, e.Key)]++
		case "unlock":
			cnt[fmt.Sprintf("req%d:%s", e.Req, e.Key)]--
		}
	}
	var out []string
	for k, v := range cnt {
		// a negative count means an acquisition the recorder did not see (a method it does not
		// know); only locks seen taken and never released are reported
		if v > 0 {
			out = append(out, fmt.Sprintf("%s(%+d)", k, v))
		}
	}
	sort.Strings(out)

	return out
}

// blockedInLocker inspects all goroutine stacks: it returns how many request goroutines of this
// package are blocked inside the locker, how many request goroutines are still alive at all, and a
// sample stack.  A deadlock means every live request goroutine is blocked in the locker.
func blockedInLocker() (blocked int, alive int, sample string) {
	buf := make([]byte, 4<<20)
	n := runtime.Stack(buf, true)
	stacks := strings.Split(string(buf[:n]), "\n\n")
	for _, s := range stacks {
		if !strings.Contains(s, "harness/c15.run.func") && !strings.Contains(s, "harness/c15.TestC15Load.func") {
			continue
		}
		if strings.Contains(s, "sync.(*WaitGroup).Wait") && !strings.Contains(s, "services/") {
			continue // the collector goroutine, not a request
		}
		alive++
		if (strings.Contains(s, "sync.(*Mutex).Lock") || strings.Contains(s, "sync.(*Mutex).lockSlow")) &&
			(strings.Contains(s, "locker/syncmap.(*Service).Lock") || strings.Contains(s, "locker/syncmap.(*Service).PreLock")) {
			blocked++
			if sample == "" {
				sample = s
			}
		}
	}

	return blocked, alive, sample
}

type outcome struct {
	overlapDifferentOrder bool
	rounds                int
	requests              int
	steerWaited           int
	log                   []vkit.LockEvent
}

var epochCounter uint64 // advancing epochs across rounds of one case (reset per case)

func run(c *Case) (*outcome, *vkit.Violation, error) {
	if err := setup(); err != nil {
		return nil, nil, err
	}
	old := runtime.GOMAXPROCS(c.Procs)
	defer runtime.GOMAXPROCS(old)
	var rl *vkit.RecordingLocker
	st, err := vkit.NewStack(vkit.StackOpts{World: world, SharedFetcher: fetcher, Permissions: vkit.AllPermissions(client),
		WrapLocker: func(l locker.Service) locker.Service {
			rl = vkit.NewRecordingLocker(l)
			rl.KeyName = func(k [48]byte) string {
				for i, a := range world.Accounts {
					if string(a.PubKey) == string(k[:]) {
						return fmt.Sprintf("k%d", i)
					}
				}

				return fmt.Sprintf("%x", k[:4])
			}

			return rl
		}})
	if err != nil {
		return nil, nil, err
	}
	o := &outcome{}
	epoch := uint64(1)
	for ri, round := range c.Rounds {
		rl.Reset()
		for x, y := range round.Steer {
			rl.Steer[x] = y
		}
		epoch += 2
		cancels := make([]context.CancelFunc, len(round.Reqs))
		ctxs := make([]context.Context, len(round.Reqs))
		for qi := range round.Reqs {
			ctxs[qi], cancels[qi] = context.WithCancel(context.Background())
		}
		reqs := round.Reqs
		rl.OnLocked = func(req int, nth int) {
			if req >= 0 && req < len(reqs) && reqs[req].CancelAt == nth {
				cancels[req]()
			}
		}
		var wg sync.WaitGroup
		start := make(chan struct{})
		type iv struct{ t0, t1 time.Time }
		ivs := make([]iv, len(round.Reqs))
		for qi := range round.Reqs {
			wg.Add(1)
			go func(qi int) {
				defer wg.Done()
				rl.Register(qi)
				defer vkit.SetBaseCtx(ctxs[qi])()
				defer cancels[qi]()
				q := round.Reqs[qi]
				ts := make([]vkit.Target, len(q.Keys))
				for i, k := range q.Keys {
					ts[i] = vkit.TargetOf(world.Accounts[k], i%2 == 1)
				}
				<-start
				ivs[qi].t0 = time.Now()
				switch q.Kind {
				case "attests":
					as := make([]*vkit.Att, len(q.Keys))
					for i := range q.Keys {
						as[i] = &vkit.Att{Slot: 1, BlockRoot: rootOf(uint64(ri), uint64(qi), 1), SrcEpoch: epoch - 1, SrcRoot: rootOf(1, 1, 2), TgtEpoch: epoch, TgtRoot: rootOf(1, 1, 3), Domain: append([]byte{1, 0, 0, 0}, make([]byte, 28)...)}
					}
					st.AttestBatch(client, "", ts, false, as)
				case "attest":
					st.Attest(client, "", ts[0], false, &vkit.Att{Slot: 1, BlockRoot: rootOf(uint64(ri), uint64(qi), 1), SrcEpoch: epoch - 1, SrcRoot: rootOf(1, 1, 2), TgtEpoch: epoch, TgtRoot: rootOf(1, 1, 3), Domain: append([]byte{1, 0, 0, 0}, make([]byte, 28)...)})
				case "propose":
					st.Propose(client, "", ts[0], false, &vkit.Prop{Slot: epoch, ParentRoot: rootOf(uint64(ri), uint64(qi), 4), StateRoot: rootOf(1, 1, 5), BodyRoot: rootOf(1, 1, 6), Domain: make([]byte, 32)})
				case "multisign":
					gs := make([]*vkit.Generic, len(q.Keys))
					for i := range q.Keys {
						gs[i] = &vkit.Generic{Data: rootOf(uint64(ri), uint64(qi), 7), Domain: append([]byte{2, 0, 0, 0}, make([]byte, 28)...)}
					}
					st.Multisign(client, "", ts, false, gs)
				}
				ivs[qi].t1 = time.Now()
			}(qi)
		}
		done := make(chan struct{})
		go func() { wg.Wait(); close(done) }()
		close(start)
		finished := false
		select {
		case <-done:
			finished = true
		case <-time.After(1 * time.Second):
		}
		log := rl.Snapshot()
		o.log = log
		if cyc, bad := lockOrderCycle(log); bad {
			// the stuck goroutines and their private locker are abandoned
			return o, vkit.Violf("lock-order-cycle", "round %d: keys are acquired in a cyclic order outside any common gate: %s (requests %+v)", ri, cyc, round.Reqs), nil
		}
		if !finished {
			select {
			case <-done:
				finished = true
			case <-time.After(20 * time.Second):
			}
		}
		if !finished {
			n1, a1, s1 := blockedInLocker()
			time.Sleep(1 * time.Second)
			n2, a2, s2 := blockedInLocker()
			if n1 >= 2 && n2 == n1 && a1 == n1 && a2 == n2 && s1 == s2 {
				return o, vkit.Violf("deadlock", "round %d did not complete within 21 s; all %d unfinished requests are blocked in the locker with unchanged stacks (requests %+v, steer %v)\n%s", ri, n2, round.Reqs, round.Steer, s1), nil
			}

			// not (only) the locker: requests that can never finish for any other reason
			if stacks, ok := vkit.ConfirmStall(4, 3*time.Second, "harness/c15.run.func"); ok {
				if len(stacks) > 6000 {
					stacks = stacks[:6000] + "\n..."
				}

				return o, vkit.Violf("requests-never-complete", "round %d did not complete within 21 s; over a further 9 s every unfinished request kept an identical stack, none was running or in a system call, and no other goroutine of the process was active (requests %+v)\n%s", ri, round.Reqs, stacks), nil
			}

			return o, nil, fmt.Errorf("round %d did not complete within 21 s but no deadlock could be confirmed (%d of %d, then %d of %d unfinished requests blocked in the locker)", ri, n1, a1, n2, a2)
		}
		if un := unreleased(rl.Snapshot()); len(un) > 0 {
			return o, vkit.Violf("lock-not-released", "round %d: key locks still held after every request returned: %v", ri, un), nil
		}
		// classification: two multi-key requests sharing >= 2 keys in different relative order that overlapped in time
		for a := 0; a < len(round.Reqs); a++ {
			for b := a + 1; b < len(round.Reqs); b++ {
				qa, qb := round.Reqs[a], round.Reqs[b]
				if len(qa.Keys) < 2 || len(qb.Keys) < 2 {
					continue
				}
				pos := map[int]int{}
				for i, k := range qa.Keys {
					pos[k] = i
				}
				var shared []int
				for _, k := range qb.Keys {
					if _, ok := pos[k]; ok {
						shared = append(shared, pos[k])
					}
				}
				inverted := false
				for i := 1; i < len(shared); i++ {
					if shared[i] < shared[i-1] {
						inverted = true
					}
				}
				overlap := ivs[a].t0.Before(ivs[b].t1) && ivs[b].t0.Before(ivs[a].t1)
				if inverted && overlap {
					o.overlapDifferentOrder = true
				}
			}
		}
		o.rounds++
		o.requests += len(round.Reqs)
	}
	st.Close()

	return o, nil, nil
}

// TestC15 decides C15 (rounds with adversarial steering + lock-order invariant).
func TestC15(t *testing.T) {
	defer vkit.Flush()
	for _, r := range vkit.ReplayFiles("TestC15") {
		var c Case
		if err := json.Unmarshal(r.Case, &c); err != nil {
			t.Fatalf("bad replay case: %v", err)
		}
		for i := 0; i < 50; i++ {
			_, v, err := run(&c)
			if err != nil {
				t.Fatalf("replay infrastructure error: %v", err)
			}
			vkit.Report(t, "C15", "TestC15", &c, v)
		}
	}
	if vkit.ReplayOnly() {
		return
	}
	rapid.Check(t, func(rt *rapid.T) {
		c := &Case{Procs: rapid.SampledFrom([]int{2, 4, 8, 16}).Draw(rt, "gomaxprocs")}
		n := rapid.IntRange(1, 4).Draw(rt, "rounds")
		for i := 0; i < n; i++ {
			c.Rounds = append(c.Rounds, genRound(rt))
		}
		o, v, err := run(c)
		if err != nil {
			rt.Fatalf("INFRA: %v", err)
		}
		vkit.S.Eval()
		vkit.S.ClassN("rounds", o.rounds)
		vkit.S.ClassN("requests", o.requests)
		for _, rd := range c.Rounds {
			for _, q := range rd.Reqs {
				if q.CancelAt > 0 && q.CancelAt < len(q.Keys) {
					vkit.S.Class("request-cancelled-between-two-of-its-key-locks")
				} else if q.CancelAt > 0 {
					vkit.S.Class("request-cancelled-after-its-last-key-lock")
				}
				seen := map[int]bool{}
				for _, k := range q.Keys {
					if seen[k] {
						vkit.S.Class("request-naming-a-key-twice")
					}
					seen[k] = true
				}
			}
		}
		if o.overlapDifferentOrder {
			vkit.S.Nontrivial(c)
			vkit.S.Class("overlapping-batches-sharing-keys-in-different-order")
		}
		vkit.S.Sample(map[string]any{"case": c, "locker_log_last_round": o.log}, o.overlapDifferentOrder)
		vkit.Report(rt, "C15", "TestC15", c, v)
	})
}

// TestC15Load is sustained random load: 8 goroutines x N random requests on one stack.
func TestC15Load(t *testing.T) {
	defer vkit.Flush()
	if vkit.ReplayOnly() {
		return
	}
	rapid.Check(t, func(rt *rapid.T) {
		if err := setup(); err != nil {
			rt.Fatalf("INFRA: %v", err)
		}
		workers := 8
		per := 60
		if vkit.Tier() == "thorough" {
			per = 200
		}
		plans := make([][]Req, workers)
		for w := range plans {
			for i := 0; i < per; i++ {
				kind := rapid.SampledFrom([]string{"attests", "attests", "multisign", "attest", "propose"}).Draw(rt, "kind")
				n := 1
				if kind == "attests" || kind == "multisign" {
					n = rapid.IntRange(2, 4).Draw(rt, "nk")
				}
				plans[w] = append(plans[w], Req{Kind: kind, Keys: genKeys(rt, n)})
			}
		}
		st, err := vkit.NewStack(vkit.StackOpts{World: world, SharedFetcher: fetcher, Permissions: vkit.AllPermissions(client)})
		if err != nil {
			rt.Fatalf("INFRA: %v", err)
		}
		var wg sync.WaitGroup
		for w := range plans {
			wg.Add(1)
			go func(w int) {
				defer wg.Done()
				for i, q := range plans[w] {
					ts := make([]vkit.Target, len(q.Keys))
					for j, k := range q.Keys {
						ts[j] = vkit.TargetOf(world.Accounts[k], j%2 == 0)
					}
					e := uint64(i + 1)
					switch q.Kind {
					case "attests":
						as := make([]*vkit.Att, len(q.Keys))
						for j := range q.Keys {
							as[j] = &vkit.Att{BlockRoot: rootOf(uint64(w), e, 1), SrcEpoch: e, SrcRoot: rootOf(1, 1, 2), TgtEpoch: e + 1, TgtRoot: rootOf(1, 1, 3), Domain: append([]byte{1, 0, 0, 0}, make([]byte, 28)...)}
						}
						st.AttestBatch(client, "", ts, false, as)
					case "attest":
						st.Attest(client, "", ts[0], false, &vkit.Att{BlockRoot: rootOf(uint64(w), e, 1), SrcEpoch: e, SrcRoot: rootOf(1, 1, 2), TgtEpoch: e + 1, TgtRoot: rootOf(1, 1, 3), Domain: append([]byte{1, 0, 0, 0}, make([]byte, 28)...)})
					case "propose":
						st.Propose(client, "", ts[0], false, &vkit.Prop{Slot: e, ParentRoot: rootOf(uint64(w), e, 4), StateRoot: rootOf(1, 1, 5), BodyRoot: rootOf(1, 1, 6), Domain: make([]byte, 32)})
					case "multisign":
						gs := make([]*vkit.Generic, len(q.Keys))
						for j := range q.Keys {
							gs[j] = &vkit.Generic{Data: rootOf(uint64(w), e, 7), Domain: append([]byte{2, 0, 0, 0}, make([]byte, 28)...)}
						}
						st.Multisign(client, "", ts, false, gs)
					}
				}
			}(w)
		}
		done := make(chan struct{})
		go func() { wg.Wait(); close(done) }()
		select {
		case <-done:
		case <-time.After(60 * time.Second):
			n1, a1, s1 := blockedInLocker()
			time.Sleep(time.Second)
			n2, a2, s2 := blockedInLocker()
			if n1 >= 2 && n2 == n1 && a1 == n1 && a2 == n2 && s1 == s2 {
				vkit.Report(rt, "C15", "TestC15Load", map[string]any{"plans": plans}, vkit.Violf("deadlock.sustained-load", "sustained load did not complete within 61 s; %d goroutines blocked in the locker with unchanged stacks\n%s", n2, s1))
			}
			if stacks, ok := vkit.ConfirmStall(4, 3*time.Second, "harness/c15.TestC15Load.func"); ok {
				if len(stacks) > 6000 {
					stacks = stacks[:6000] + "\n..."
				}
				vkit.Report(rt, "C15", "TestC15Load", map[string]any{"plans": plans}, vkit.Violf("requests-never-complete.sustained-load", "sustained load did not complete within 61 s; over a further 9 s every unfinished request kept an identical stack and no goroutine of the process was active\n%s", stacks))
			}
			rt.Fatalf("INFRA: sustained load did not complete but no deadlock could be confirmed")
		}
		st.Close()
		vkit.S.Eval()
		vkit.S.ClassN("sustained-load-requests", workers*per)
		vkit.S.Nontrivial(map[string]any{"load": plans[0][:5], "h": vkit.Hash(plans)})
	})
}
