package c10

import (
	"bytes"
	"context"
	"encoding/gob"
	"encoding/json"
	"fmt"
	"os"
	"path/filepath"
	"reflect"
	"testing"
	"time"

	"github.com/attestantio/dirk/rules"
	standardrules "github.com/attestantio/dirk/rules/standard"
	"github.com/rs/zerolog"
	"pgregory.net/rapid"

	"verif/harness/vkit"
)

// Sign is one signing request of a C11 history.
type Sign struct {
	Kind string `json:"kind"` // att | prop
	Key  int    `json:"key"`
	Src  uint64 `json:"src,omitempty"`
	Tgt  uint64 `json:"tgt,omitempty"`
	Slot uint64 `json:"slot,omitempty"`
}

// Case11 is a history followed by export, round trip, restart and probes.
type Case11 struct {
	History []Sign `json:"history"`
	Probes  []Sign `json:"probes"`
	ViaCLI  bool   `json:"via_cli"`
}

func genHistory(t *rapid.T) ([]Sign, [3]floors) {
	m := [3]floors{{-1, -1, -1}, {-1, -1, -1}, {-1, -1, -1}}
	var h []Sign
	nk := rapid.IntRange(1, 3).Draw(t, "nkeys")
	only := rapid.SampledFrom([]string{"", "", "att", "prop"}).Draw(t, "only_kind_for_key0")
	n := rapid.IntRange(0, 14).Draw(t, "nhist")
	for i := 0; i < n; i++ {
		key := rapid.IntRange(0, nk-1).Draw(t, "key")
		kind := rapid.SampledFrom([]string{"att", "att", "prop"}).Draw(t, "kind")
		if key == 0 && only != "" {
			kind = only
		}
		advancing := rapid.IntRange(0, 9).Draw(t, "advancing") < 7
		if kind == "att" {
			var src, tgt uint64
			if m[key].tgt < 0 {
				src = rapid.Uint64Range(0, 5).Draw(t, "src0")
				tgt = src + rapid.Uint64Range(0, 3).Draw(t, "tgtd0")
				if tgt == src && src != 0 {
					tgt++
				}
			} else if advancing {
				src = uint64(m[key].src) + rapid.SampledFrom([]uint64{0, 0, 1, 4, 1<<54 + 1}).Draw(t, "srcd")
				tgt = uint64(m[key].tgt) + rapid.SampledFrom([]uint64{1, 1, 2, 1 << 33, 1<<55 + 1}).Draw(t, "tgtd")
				if tgt <= src {
					tgt = src + 1
				}
			} else {
				// noise: at or below the watermark
				src = uint64(m[key].src)
				tgt = uint64(m[key].tgt) - rapid.Uint64Range(0, uint64(min64(m[key].tgt, 2))).Draw(t, "below")
			}
			h = append(h, Sign{Kind: "att", Key: key, Src: src, Tgt: tgt})
			okFirst := m[key].tgt < 0 && (tgt > src || (src == 0 && tgt == 0))
			okNext := m[key].tgt >= 0 && int64(tgt) > m[key].tgt && int64(src) >= m[key].src && tgt > src
			if okFirst || okNext {
				m[key].src, m[key].tgt = int64(src), int64(tgt)
			}
		} else {
			var slot uint64
			if m[key].slot < 0 {
				slot = rapid.Uint64Range(0, 9).Draw(t, "slot0")
			} else if advancing {
				slot = uint64(m[key].slot) + rapid.SampledFrom([]uint64{1, 1, 3, 1 << 40, 1<<57 + 3}).Draw(t, "slotd")
			} else {
				slot = uint64(m[key].slot)
			}
			h = append(h, Sign{Kind: "prop", Key: key, Slot: slot})
			if int64(slot) > m[key].slot {
				m[key].slot = int64(slot)
			}
		}
	}

	return h, m
}

func min64(a, b int64) int64 {
	if a < b {
		return a
	}

	return b
}

func genProbes(t *rapid.T, m [3]floors) []Sign {
	var ps []Sign
	n := rapid.IntRange(3, 12).Draw(t, "nprobes")
	for i := 0; i < n; i++ {
		key := rapid.IntRange(0, 2).Draw(t, "pkey")
		d := int64(rapid.SampledFrom([]int{-1, 0, 0, 1, 1, 50}).Draw(t, "pd"))
		if rapid.Bool().Draw(t, "patt") {
			src := m[key].src + int64(rapid.SampledFrom([]int{-1, 0, 0, 1}).Draw(t, "psd"))
			tgt := m[key].tgt + d
			if rapid.IntRange(0, 9).Draw(t, "pzero") == 0 {
				src, tgt = 0, 0
			}
			if src < 0 {
				src = 0
			}
			if tgt < 0 {
				tgt = 0
			}
			ps = append(ps, Sign{Kind: "att", Key: key, Src: uint64(src), Tgt: uint64(tgt)})
			if tgt > m[key].tgt && src >= m[key].src && (tgt > src || (src == 0 && tgt == 0 && m[key].tgt < 0)) {
				m[key].src, m[key].tgt = src, tgt
			}
		} else {
			slot := m[key].slot + d
			if slot < 0 {
				slot = 0
			}
			ps = append(ps, Sign{Kind: "prop", Key: key, Slot: uint64(slot)})
			if slot > m[key].slot {
				m[key].slot = slot
			}
		}
	}

	return ps
}

func apply(rs *Rules, s Sign) rules.Result {
	if s.Kind == "att" {
		return rs.Attest(PubKeys[s.Key], s.Src, s.Tgt)
	}

	return rs.Propose(PubKeys[s.Key], s.Slot)
}

type out11 struct {
	keysSigned, onlyOneKind, refusedBoth, approvedBoth int
	trace                                              []string
}

func run11(c *Case11) (*out11, *vkit.Violation, error) {
	o := &out11{}
	baseA, err := os.MkdirTemp("", "verif-c11a-")
	if err != nil {
		return o, nil, err
	}
	defer os.RemoveAll(baseA)
	baseB, err := os.MkdirTemp("", "verif-c11b-")
	if err != nil {
		return o, nil, err
	}
	defer os.RemoveAll(baseB)
	a, err := OpenRules(baseA)
	if err != nil {
		return o, nil, err
	}
	defer func() {
		if a != nil {
			a.Close()
		}
	}()
	// the history, and the model maxima of what was approved
	want := map[string][3]int64{}
	for _, s := range c.History {
		r := apply(a, s)
		o.trace = append(o.trace, fmt.Sprintf("%s k%d %d/%d/%d %s", s.Kind, s.Key, s.Src, s.Tgt, s.Slot, r))
		if r != rules.APPROVED {
			continue
		}
		k := KeyHex(s.Key)
		e, ok := want[k]
		if !ok {
			e = [3]int64{-1, -1, -1}
		}
		if s.Kind == "att" {
			if int64(s.Src) > e[1] {
				e[1] = int64(s.Src)
			}
			if int64(s.Tgt) > e[2] {
				e[2] = int64(s.Tgt)
			}
		} else if int64(s.Slot) > e[0] {
			e[0] = int64(s.Slot)
		}
		want[k] = e
	}
	o.keysSigned = len(want)
	for _, e := range want {
		if (e[0] < 0) != (e[2] < 0) {
			o.onlyOneKind++
		}
	}
	// (1) rules-level export states exactly the maxima for every key that signed
	expA, err := a.Export()
	if err != nil {
		return o, nil, err
	}
	for k, w := range want {
		if expA[k] != w {
			return o, vkit.Violf("export-not-faithful.rules", "key %s: signed maxima (slot,src,tgt) are %v but the export says %v; history %v", k[:8], w, expA[k], o.trace), nil
		}
	}
	// (3) restart keeps everything
	if err := a.Close(); err != nil {
		return o, nil, err
	}
	a = nil
	var expCLI map[string][3]int64
	if c.ViaCLI {
		expCLI, err = Export(baseA, len(c.History)%2 == 0)
		if err != nil {
			return o, nil, err
		}
		for k, w := range want {
			if expCLI[k] != w {
				return o, vkit.Violf("export-not-faithful.cli", "key %s: signed maxima are %v but dirk --export-slashing-protection says %v; history %v", k[:8], w, expCLI[k], o.trace), nil
			}
		}
	}
	a, err = OpenRules(baseA)
	if err != nil {
		return o, nil, fmt.Errorf("store does not reopen: %w", err)
	}
	expA2, err := a.Export()
	if err != nil {
		return o, nil, err
	}
	if !reflect.DeepEqual(expA, expA2) {
		return o, vkit.Violf("restart-changed-records", "export before shutdown %v, after restart %v", expA, expA2), nil
	}
	// (2) round trip into an empty instance
	if c.ViaCLI {
		// export file of A imported by the binary into B
		if err := a.Close(); err != nil {
			return o, nil, err
		}
		a = nil
		file := filepath.Join(baseA, "roundtrip.json")
		code, _, se, err := Dirk(baseA, "--export-slashing-protection", "--genesis-validators-root", GenesisRoot, "--slashing-protection-file", file)
		if err != nil || code != 0 {
			return o, nil, fmt.Errorf("export failed: %v %d %s", err, code, se)
		}
		code, out, err := Import(baseB, GenesisRoot, file)
		if err != nil {
			return o, nil, err
		}
		if code != 0 {
			return o, vkit.Violf("own-export-not-importable", "dirk refuses to import its own export (exit %d): %s", code, out), nil
		}
		if a, err = OpenRules(baseA); err != nil {
			return o, nil, err
		}
	}
	b, err := OpenRules(baseB)
	if err != nil {
		return o, nil, err
	}
	defer b.Close()
	if !c.ViaCLI {
		if err := b.ImportMap(expA); err != nil {
			return o, nil, err
		}
	}
	expB, err := b.Export()
	if err != nil {
		return o, nil, err
	}
	if !reflect.DeepEqual(expA, expB) {
		return o, vkit.Violf("round-trip-changed-records", "original export %v, export of the instance that imported it %v", expA, expB), nil
	}
	for i, p := range c.Probes {
		ra, rb := apply(a, p), apply(b, p)
		if ra != rb {
			return o, vkit.Violf("twin-decides-differently", "probe %d %+v: the original answers %s, the instance built from its export answers %s; history %v", i, p, ra, rb, o.trace), nil
		}
		if ra == rules.APPROVED {
			o.approvedBoth++
		} else {
			o.refusedBoth++
		}
	}
	fa, err1 := a.Export()
	fb, err2 := b.Export()
	if err1 != nil || err2 != nil {
		return o, nil, fmt.Errorf("export: %v %v", err1, err2)
	}
	if !reflect.DeepEqual(fa, fb) {
		return o, vkit.Violf("twin-state-differs-after-probes", "original %v, twin %v", fa, fb), nil
	}

	return o, nil, nil
}

// TestC11 is the history / export / round-trip / restart part of C11.
func TestC11(t *testing.T) {
	defer vkit.Flush()
	for _, r := range vkit.ReplayFiles("TestC11") {
		var c Case11
		if err := json.Unmarshal(r.Case, &c); err != nil {
			t.Fatalf("bad replay case: %v", err)
		}
		o, v, err := run11(&c)
		if err != nil {
			t.Fatalf("replay infrastructure error: %v", err)
		}
		t.Logf("replay: trace=%v", o.trace)
		vkit.Report(t, "C11", "TestC11", &c, v)
	}
	if vkit.ReplayOnly() {
		return
	}
	rapid.Check(t, func(rt *rapid.T) {
		h, m := genHistory(rt)
		c := &Case11{History: h, Probes: genProbes(rt, m), ViaCLI: rapid.IntRange(0, 3).Draw(rt, "cli") == 0}
		stop := vkit.Watch(c, 300*time.Second)
		o, v, err := run11(c)
		stop()
		if err != nil {
			rt.Fatalf("INFRA: %v", err)
		}
		vkit.S.Eval()
		if c.ViaCLI {
			vkit.S.Class("round-trip-through-cli-files")
		} else {
			vkit.S.Class("round-trip-through-rules-api")
		}
		vkit.S.ClassN("probes-refused-on-both-twins", o.refusedBoth)
		vkit.S.ClassN("probes-approved-on-both-twins", o.approvedBoth)
		vkit.S.ClassN("keys-with-only-proposals-or-only-attestations", o.onlyOneKind)
		nt := o.keysSigned >= 2 && o.onlyOneKind > 0 && o.refusedBoth > 0
		if nt {
			vkit.S.Nontrivial(c)
		}
		vkit.S.Sample(map[string]any{"case": c, "history_verdicts": o.trace}, nt && c.ViaCLI)
		vkit.Report(rt, "C11", "TestC11", c, v)
	})
}

// ---------------------------------------------------------------------------------------------
// legacy records

// Legacy is a store pre-populated with old-format (gob) records.
type Legacy struct {
	Src  int64 `json:"src"`
	Tgt  int64 `json:"tgt"`
	Slot int64 `json:"slot"`
	Att  bool  `json:"has_att"`
	Prop bool  `json:"has_prop"`
}

type legacyAtt struct {
	SourceEpoch int64
	TargetEpoch int64
}

type legacyProp struct {
	Slot int64
}

func gobOf(v any) []byte {
	var buf bytes.Buffer
	if err := gob.NewEncoder(&buf).Encode(v); err != nil {
		panic(err)
	}

	return buf.Bytes()
}

func runLegacy(c *Legacy) *vkit.Violation {
	base, err := os.MkdirTemp("", "verif-c11l-")
	if err != nil {
		return vkit.Violf("infra", "%v", err)
	}
	defer os.RemoveAll(base)
	store, err := standardrules.NewStore(context.Background(), filepath.Join(base, "storage"), false, zerolog.Nop())
	if err != nil {
		return vkit.Violf("infra", "%v", err)
	}
	key := PubKeys[0]
	if c.Att {
		rec := gobOf(&legacyAtt{SourceEpoch: c.Src, TargetEpoch: c.Tgt})
		if rec[0] == 0x01 {
			return nil // would be read as the new format; cannot occur for these structs
		}
		if err := store.Store(context.Background(), append(append([]byte{}, key...), 0x02), rec); err != nil {
			return vkit.Violf("infra", "%v", err)
		}
	}
	if c.Prop {
		if err := store.Store(context.Background(), append(append([]byte{}, key...), 0x03), gobOf(&legacyProp{Slot: c.Slot})); err != nil {
			return vkit.Violf("infra", "%v", err)
		}
	}
	if err := store.Close(context.Background()); err != nil {
		return vkit.Violf("infra", "%v", err)
	}
	rs, err := OpenRules(base)
	if err != nil {
		return vkit.Violf("infra", "%v", err)
	}
	defer rs.Close()
	exp, err := rs.Export()
	if err != nil {
		return vkit.Violf("legacy-records-break-export", "export fails on a store with old-format records %+v: %v", c, err)
	}
	want := [3]int64{-1, -1, -1}
	if c.Prop {
		want[0] = c.Slot
	}
	if c.Att {
		want[1], want[2] = c.Src, c.Tgt
	}
	if got := exp[KeyHex(0)]; got != want {
		return vkit.Violf("legacy-records-not-honoured.export", "old-format records %+v are exported as %v", c, got)
	}
	if c.Att {
		if c.Tgt > 0 {
			if r := rs.Attest(key, 0, uint64(c.Tgt)); r == rules.APPROVED {
				return vkit.Violf("legacy-records-not-honoured.attestation", "old-format record %+v: an attestation at its target was approved", c)
			}
		}
		if c.Src > 0 {
			if r := rs.Attest(key, uint64(c.Src)-1, uint64(max64(c.Tgt, c.Src))+3); r == rules.APPROVED {
				return vkit.Violf("legacy-records-not-honoured.attestation", "old-format record %+v: an attestation below its source was approved", c)
			}
		}
		if r := rs.Attest(key, uint64(c.Src), uint64(max64(c.Tgt, c.Src))+1); r != rules.APPROVED {
			return vkit.Violf("legacy-records-block-valid-duty", "old-format record %+v: an advancing attestation (%d,%d) was answered %s", c, c.Src, max64(c.Tgt, c.Src)+1, r)
		}
		e, _ := rs.Export()
		if got := e[KeyHex(0)]; got[1] != c.Src || got[2] != max64(c.Tgt, c.Src)+1 {
			return vkit.Violf("export-not-faithful.after-legacy", "after advancing from an old-format record the export says %v", got)
		}
	}
	if c.Prop {
		if r := rs.Propose(key, uint64(c.Slot)); r == rules.APPROVED {
			return vkit.Violf("legacy-records-not-honoured.proposal", "old-format record %+v: a proposal at its slot was approved", c)
		}
		if r := rs.Propose(key, uint64(c.Slot)+1); r != rules.APPROVED {
			return vkit.Violf("legacy-records-block-valid-duty", "old-format record %+v: an advancing proposal was answered %s", c, r)
		}
	}

	return nil
}

func max64(a, b int64) int64 {
	if a > b {
		return a
	}

	return b
}

// TestC11Legacy is the old-on-disk-format part of C11.
func TestC11Legacy(t *testing.T) {
	defer vkit.Flush()
	for _, r := range vkit.ReplayFiles("TestC11Legacy") {
		var c Legacy
		if err := json.Unmarshal(r.Case, &c); err != nil {
			t.Fatalf("bad replay case: %v", err)
		}
		vkit.Report(t, "C11", "TestC11Legacy", &c, runLegacy(&c))
	}
	if vkit.ReplayOnly() {
		return
	}
	rapid.Check(t, func(rt *rapid.T) {
		vals := []int64{0, 1, 2, 127, 128, 255, 256, 65535, 1 << 31, 1<<62 + 5}
		c := &Legacy{Att: rapid.Bool().Draw(rt, "att"), Prop: rapid.Bool().Draw(rt, "prop")}
		if !c.Att && !c.Prop {
			c.Att = true
		}
		c.Src = rapid.SampledFrom(vals).Draw(rt, "src")
		if rapid.Bool().Draw(rt, "rnd") {
			c.Src = rapid.Int64Range(0, 1<<40).Draw(rt, "src_r")
		}
		c.Tgt = c.Src + rapid.SampledFrom([]int64{0, 1, 2, 1000}).Draw(rt, "tgtd")
		if c.Tgt == c.Src && c.Src != 0 {
			c.Tgt++
		}
		c.Slot = rapid.SampledFrom(vals).Draw(rt, "slot")
		stop := vkit.Watch(c, 300*time.Second)
		v := runLegacy(c)
		stop()
		vkit.S.Eval()
		vkit.S.Class("legacy-store")
		if (c.Att && c.Tgt != 0) || (c.Prop && c.Slot != 0) {
			vkit.S.Nontrivial(c)
			vkit.S.Class("legacy-non-zero-value")
		}
		if c.Att && c.Src == 0 && c.Tgt == 0 {
			vkit.S.Class("legacy-zero-value")
		}
		vkit.S.Sample(c, false)
		vkit.Report(rt, "C11", "TestC11Legacy", c, v)
	})
}
