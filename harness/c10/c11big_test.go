package c10

import (
	"context"
	"encoding/binary"
	"encoding/json"
	"fmt"
	"os"
	"testing"
	"time"

	"github.com/attestantio/dirk/rules"
	"pgregory.net/rapid"

	"verif/harness/vkit"
)

// Big is an export / import round trip over more keys than one badger transaction holds
// (badger v2 refuses the 104,857th entry of a transaction); thorough tier only.
type Big struct {
	Keys      int    `json:"keys"`       // keys that attest (batch path)
	Proposers int    `json:"proposers"`  // the first Proposers keys also propose
	Salt      uint64 `json:"salt"`       // spreads the values
	Probes    []int  `json:"probe_keys"` // keys probed on both twins
}

func bigKey(i int) []byte {
	k := make([]byte, 48)
	k[0] = 0x80
	binary.BigEndian.PutUint32(k[44:], uint32(i))

	return k
}

func (b *Big) vals(i int) (uint64, uint64, uint64) {
	src := (uint64(i)*2654435761 + b.Salt) % 1000
	return src, src + 1 + uint64(i)%7, 1 + (uint64(i)+b.Salt)%5000
}

type outBig struct {
	records int
	refused int
}

func runBig(c *Big) (*outBig, *vkit.Violation, error) {
	o := &outBig{}
	ctx := context.Background()
	dirs := [2]string{}
	for i := range dirs {
		d, err := os.MkdirTemp("", "c11big")
		if err != nil {
			return o, nil, err
		}
		defer os.RemoveAll(d)
		dirs[i] = d
	}
	a, err := OpenRules(dirs[0])
	if err != nil {
		return o, nil, err
	}
	defer func() { _ = a.Close() }()
	want := map[string][3]int64{}
	const batch = 4000
	for start := 0; start < c.Keys; start += batch {
		var md []*rules.ReqMetadata
		var reqs []*rules.SignBeaconAttestationData
		for i := start; i < start+batch && i < c.Keys; i++ {
			src, tgt, _ := c.vals(i)
			md = append(md, &rules.ReqMetadata{Account: "a", PubKey: bigKey(i), Client: "c"})
			reqs = append(reqs, &rules.SignBeaconAttestationData{Domain: attDomain, BeaconBlockRoot: make([]byte, 32),
				Source: &rules.Checkpoint{Epoch: src, Root: make([]byte, 32)}, Target: &rules.Checkpoint{Epoch: tgt, Root: make([]byte, 32)}})
			want[fmt.Sprintf("%x", bigKey(i))] = [3]int64{-1, int64(src), int64(tgt)}
		}
		for j, res := range a.svc.OnSignBeaconAttestations(ctx, md, reqs) {
			if res != rules.APPROVED {
				return o, nil, fmt.Errorf("first attestation of key %d not approved: %v", start+j, res)
			}
		}
	}
	for i := 0; i < c.Proposers; i++ {
		_, _, slot := c.vals(i)
		if res := a.Propose(bigKey(i), slot); res != rules.APPROVED {
			return o, nil, fmt.Errorf("first proposal of key %d not approved: %v", i, res)
		}
		e := want[fmt.Sprintf("%x", bigKey(i))]
		e[0] = int64(slot)
		want[fmt.Sprintf("%x", bigKey(i))] = e
	}
	o.records = c.Keys + c.Proposers
	exp, err := a.Export()
	if err != nil {
		return o, nil, err
	}
	if msg, ok := sameExport(want, exp); !ok {
		return o, vkit.Violf("export-differs-from-approved-maxima", "%s", msg), nil
	}
	b, err := OpenRules(dirs[1])
	if err != nil {
		return o, nil, err
	}
	defer func() { _ = b.Close() }()
	if err := b.ImportMap(exp); err != nil {
		return o, vkit.Violf("import-of-own-export-fails", "%v", err), nil
	}
	got, err := b.Export()
	if err != nil {
		return o, nil, err
	}
	if msg, ok := sameExport(exp, got); !ok {
		return o, vkit.Violf("twin-export-differs", "%s", msg), nil
	}
	for _, i := range c.Probes {
		src, tgt, slot := c.vals(i)
		ra, rb := a.Attest(bigKey(i), src, tgt), b.Attest(bigKey(i), src, tgt)
		if ra != rb {
			return o, vkit.Violf("twin-decides-differently", "repeat attestation of key %d: original %v, twin %v", i, ra, rb), nil
		}
		if ra != rules.APPROVED {
			o.refused++
		}
		if i < c.Proposers {
			pa, pb := a.Propose(bigKey(i), slot), b.Propose(bigKey(i), slot)
			if pa != pb {
				return o, vkit.Violf("twin-decides-differently", "repeat proposal of key %d: original %v, twin %v", i, pa, pb), nil
			}
		}
	}

	return o, nil, nil
}

// sameExport compares two normalised exports and names up to three differing keys.
func sameExport(want, got map[string][3]int64) (string, bool) {
	var diffs []string
	n := 0
	for _, k := range SortedKeys(want) {
		if g, ok := got[k]; !ok || g != want[k] {
			n++
			if len(diffs) < 3 {
				diffs = append(diffs, fmt.Sprintf("key %s: want %v, got %v (present %v)", k, want[k], g, ok))
			}
		}
	}
	for k := range got {
		if _, ok := want[k]; !ok {
			n++
		}
	}
	if n == 0 {
		return "", true
	}

	return fmt.Sprintf("%d keys differ (%d vs %d entries), e.g. %v", n, len(want), len(got), diffs), false
}

// TestC11Big is the large-export part of C11 (thorough tier only: one case takes about a minute).
func TestC11Big(t *testing.T) {
	defer vkit.Flush()
	for _, r := range vkit.ReplayFiles("TestC11Big") {
		var c Big
		if err := json.Unmarshal(r.Case, &c); err != nil {
			t.Fatalf("bad replay case: %v", err)
		}
		_, v, err := runBig(&c)
		if err != nil {
			t.Fatalf("replay infrastructure error: %v", err)
		}
		vkit.Report(t, "C11", "TestC11Big", &c, v)
	}
	if vkit.ReplayOnly() {
		return
	}
	rapid.Check(t, func(rt *rapid.T) {
		c := &Big{Keys: rapid.IntRange(104857, 109000).Draw(rt, "keys"), Salt: rapid.Uint64Range(0, 1<<20).Draw(rt, "salt")}
		c.Proposers = rapid.IntRange(0, 300).Draw(rt, "proposers")
		c.Probes = rapid.SliceOfN(rapid.IntRange(0, c.Keys-1), 20, 60).Draw(rt, "probes")
		stop := vkit.Watch(c, 1200*time.Second)
		o, v, err := runBig(c)
		stop()
		if err != nil {
			rt.Fatalf("INFRA: %v", err)
		}
		vkit.S.Eval()
		vkit.S.Class("export-of-more-records-than-one-badger-transaction")
		vkit.S.ClassN("probes-refused-on-both-twins", o.refused)
		nt := o.records > 104857 && o.refused > 0
		if nt {
			vkit.S.Nontrivial(c)
		}
		vkit.S.Sample(map[string]any{"case": c, "records": o.records}, nt)
		vkit.Report(rt, "C11", "TestC11Big", c, v)
	})
}
