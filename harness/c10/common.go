// Package c10 decides C10 (imports never weaken protection) and C11 (exports are faithful and
// survive restart and the old on-disk format), through the real dirk binary and the rules service.
package c10

import (
	"bytes"
	"context"
	"encoding/json"
	"fmt"
	"os"
	"os/exec"
	"path/filepath"
	"sort"
	"strconv"

	"github.com/attestantio/dirk/rules"
	standardrules "github.com/attestantio/dirk/rules/standard"

	"verif/harness/vkit"
)

// GenesisRoot is the genesis validators root the harness configures.
const GenesisRoot = "0x04700007fabc8282644aed6d1c7c9e21d38a03a0c4ba193f3afe428824b3a673"

// OtherRoot differs from GenesisRoot.
const OtherRoot = "0x14700007fabc8282644aed6d1c7c9e21d38a03a0c4ba193f3afe428824b3a673"

// PubKeys are the three keys of the pool.
var PubKeys [][]byte

func init() {
	for i := 0; i < 3; i++ {
		k := bytes.Repeat([]byte{byte(0xa0 + i)}, 48)
		k[0] = 0x80 | byte(i)
		PubKeys = append(PubKeys, k)
	}
}

// KeyHex is the hex form (no prefix) of a pool key.
func KeyHex(i int) string { return fmt.Sprintf("%x", PubKeys[i]) }

// Dirk runs the real binary once.
func Dirk(base string, args ...string) (int, string, string, error) {
	bin := os.Getenv("VERIF_DIRK")
	if bin == "" {
		return 0, "", "", fmt.Errorf("VERIF_DIRK is not set")
	}
	cmd := exec.Command(bin, append([]string{"--base-dir", base}, args...)...)
	cmd.Env = append(os.Environ(), "DIRK_SERVER_NAME=verif", "HOME="+base)
	var so, se bytes.Buffer
	cmd.Stdout, cmd.Stderr = &so, &se
	err := cmd.Run()
	code := 0
	if err != nil {
		if ee, ok := err.(*exec.ExitError); ok {
			code = ee.ExitCode()
			if code < 0 {
				return code, so.String(), se.String(), fmt.Errorf("dirk died: %v: %s", err, se.String())
			}
		} else {
			return 0, "", "", err
		}
	}

	return code, so.String(), se.String(), nil
}

// Import runs dirk --import-slashing-protection on a file.
func Import(base string, root string, file string) (int, string, error) {
	code, so, se, err := Dirk(base, "--import-slashing-protection", "--genesis-validators-root", root, "--slashing-protection-file", file)

	return code, so + se, err
}

// Interchange is the JSON document.
type Interchange struct {
	Metadata *Meta   `json:"metadata,omitempty"`
	Data     []*Data `json:"data"`
}

// Meta is the interchange metadata.
type Meta struct {
	Version *string `json:"interchange_format_version,omitempty"`
	Root    *string `json:"genesis_validators_root,omitempty"`
}

// Data is one key's entry.
type Data struct {
	PubKey string  `json:"pubkey"`
	Blocks []Block `json:"signed_blocks,omitempty"`
	Atts   []AttE  `json:"signed_attestations,omitempty"`
}

// Block is a signed block entry.
type Block struct {
	Slot string `json:"slot"`
}

// AttE is a signed attestation entry.
type AttE struct {
	Source string `json:"source_epoch"`
	Target string `json:"target_epoch"`
}

// Export runs dirk --export-slashing-protection and parses the result: key hex -> [slot, src, tgt] (-1 = absent).
func Export(base string, toFile bool) (map[string][3]int64, error) {
	args := []string{"--export-slashing-protection", "--genesis-validators-root", GenesisRoot}
	var path string
	if toFile {
		path = filepath.Join(base, "export.json")
		_ = os.Remove(path)
		args = append(args, "--slashing-protection-file", path)
	}
	code, so, se, err := Dirk(base, args...)
	if err != nil {
		return nil, err
	}
	if code != 0 {
		return nil, fmt.Errorf("export exited %d: %s", code, se)
	}
	raw := []byte(so)
	if toFile {
		if raw, err = os.ReadFile(path); err != nil {
			return nil, err
		}
	}
	var doc Interchange
	if err := json.Unmarshal(raw, &doc); err != nil {
		return nil, fmt.Errorf("export is not JSON: %v: %q", err, string(raw))
	}
	if doc.Metadata == nil || doc.Metadata.Version == nil || *doc.Metadata.Version != "5" || doc.Metadata.Root == nil || *doc.Metadata.Root != GenesisRoot {
		return nil, fmt.Errorf("export metadata wrong: %s", string(raw))
	}
	out := map[string][3]int64{}
	for _, d := range doc.Data {
		e := [3]int64{-1, -1, -1}
		for _, b := range d.Blocks {
			v, err := strconv.ParseInt(b.Slot, 10, 64)
			if err != nil {
				return nil, err
			}
			if v > e[0] {
				e[0] = v
			}
		}
		for _, a := range d.Atts {
			s, err1 := strconv.ParseInt(a.Source, 10, 64)
			t, err2 := strconv.ParseInt(a.Target, 10, 64)
			if err1 != nil || err2 != nil {
				return nil, fmt.Errorf("bad attestation entry %+v", a)
			}
			if s > e[1] {
				e[1] = s
			}
			if t > e[2] {
				e[2] = t
			}
		}
		key := d.PubKey
		if len(key) > 2 && key[:2] == "0x" {
			key = key[2:]
		}
		if e != [3]int64{-1, -1, -1} {
			out[key] = e
		}
	}

	return out, nil
}

// Rules is an in-process rules service on base/storage (the directory the binary uses).
type Rules struct {
	svc    *standardrules.Service
	cancel context.CancelFunc
}

// OpenRules opens the store.
func OpenRules(base string) (*Rules, error) {
	vkit.Init()
	ctx, cancel := context.WithCancel(context.Background())
	svc, err := standardrules.New(ctx, standardrules.WithStoragePath(filepath.Join(base, "storage")))
	if err != nil {
		cancel()

		return nil, err
	}

	return &Rules{svc: svc, cancel: cancel}, nil
}

// Close closes the store.
func (r *Rules) Close() error {
	err := r.svc.Close(context.Background())
	r.cancel()

	return err
}

// Export returns the normalised export.
func (r *Rules) Export() (map[string][3]int64, error) {
	m, err := r.svc.ExportSlashingProtection(context.Background())
	if err != nil {
		return nil, err
	}
	out := map[string][3]int64{}
	for k, v := range m {
		e := [3]int64{v.HighestProposedSlot, v.HighestAttestedSourceEpoch, v.HighestAttestedTargetEpoch}
		if e != [3]int64{-1, -1, -1} {
			out[fmt.Sprintf("%x", k[:])] = e
		}
	}

	return out, nil
}

var (
	attDomain  = append([]byte{1, 0, 0, 0}, make([]byte, 28)...)
	propDomain = make([]byte, 32)
)

// Attest asks the rules service about an attestation.
func (r *Rules) Attest(key []byte, src, tgt uint64) rules.Result {
	return r.svc.OnSignBeaconAttestation(context.Background(), &rules.ReqMetadata{Account: "a", PubKey: key, Client: "c"},
		&rules.SignBeaconAttestationData{Domain: attDomain, BeaconBlockRoot: make([]byte, 32), Source: &rules.Checkpoint{Epoch: src, Root: make([]byte, 32)}, Target: &rules.Checkpoint{Epoch: tgt, Root: make([]byte, 32)}})
}

// Propose asks the rules service about a proposal.
func (r *Rules) Propose(key []byte, slot uint64) rules.Result {
	return r.svc.OnSignBeaconProposal(context.Background(), &rules.ReqMetadata{Account: "a", PubKey: key, Client: "c"},
		&rules.SignBeaconProposalData{Domain: propDomain, Slot: slot, ParentRoot: make([]byte, 32), StateRoot: make([]byte, 32), BodyRoot: make([]byte, 32)})
}

// ImportMap imports through the rules-level API.
func (r *Rules) ImportMap(m map[string][3]int64) error {
	in := map[[48]byte]*rules.SlashingProtection{}
	for k, e := range m {
		var key [48]byte
		b := make([]byte, 48)
		fmt.Sscanf(k, "%x", &b)
		copy(key[:], b)
		in[key] = &rules.SlashingProtection{PubKey: b, HighestProposedSlot: e[0], HighestAttestedSourceEpoch: e[1], HighestAttestedTargetEpoch: e[2]}
	}

	return r.svc.ImportSlashingProtection(context.Background(), in)
}

// SortedKeys returns the keys of an export in order.
func SortedKeys(m map[string][3]int64) []string {
	var ks []string
	for k := range m {
		ks = append(ks, k)
	}
	sort.Strings(ks)

	return ks
}
