package c10

import (
	"encoding/json"
	"fmt"
	"os"
	"path/filepath"
	"strconv"
	"strings"
	"testing"
	"time"

	"github.com/attestantio/dirk/rules"
	"pgregory.net/rapid"

	"verif/harness/vkit"
)

// FileEntry is one data entry of a generated interchange file; numbers are absolute strings.
type FileEntry struct {
	Key    string      `json:"key"` // pool index "0".."2" or a literal malformed key
	Blocks []string    `json:"blocks,omitempty"`
	Atts   [][2]string `json:"atts,omitempty"`
	// Spell chooses among spellings of the same pool key that the import decodes to the same 48
	// bytes: 0 "0x"+lower-case hex, 1 "0x"+upper-case hex, 2 lower-case without prefix, 3 mixed case.
	Spell int `json:"spell,omitempty"`
}

func spell(hexKey string, how int) string {
	switch how {
	case 1:
		return "0x" + strings.ToUpper(hexKey)
	case 2:
		return hexKey
	case 3:
		b := []byte(hexKey)
		for i := 0; i < len(b); i += 3 {
			b[i] = strings.ToUpper(string(b[i]))[0]
		}

		return "0x" + string(b)
	}

	return "0x" + hexKey
}

// Step is one action of a C10 history.
type Step struct {
	Kind    string      `json:"kind"` // sign-att | sign-prop | import | restart
	Key     int         `json:"key,omitempty"`
	Src     uint64      `json:"src,omitempty"`
	Tgt     uint64      `json:"tgt,omitempty"`
	Slot    uint64      `json:"slot,omitempty"`
	Meta    string      `json:"meta,omitempty"` // ok | version-4 | version-empty | version-missing | other-root | root-case | no-metadata
	Entries []FileEntry `json:"entries,omitempty"`
}

// Case is a history.
type Case struct {
	Steps []Step `json:"steps"`
}

// floors are the highest values on record per key; -1 = none.  Values of 2^63 and above (legal in an
// interchange file, which carries unsigned 64-bit numbers as strings) are clamped to MaxInt64 for
// the purpose of probing: Dirk refuses requests above MaxInt64 anyway, so "everything at or below
// the value is refused" is decided by probes at or below MaxInt64.
type floors struct{ slot, src, tgt int64 }

// parseU parses an unsigned 64-bit decimal string the way the interchange format defines numbers and
// clamps it to MaxInt64; ok=false for anything else (sign, blanks, hex, fractions, out of range).
func parseU(x string) (int64, bool) {
	if x == "" || strings.TrimSpace(x) != x || x[0] == '+' || x[0] == '-' {
		return 0, false
	}
	v, err := strconv.ParseUint(x, 10, 64)
	if err != nil {
		return 0, false
	}
	if v > 1<<63-1 {
		return 1<<63 - 1, true
	}

	return int64(v), true
}

type genModel struct{ f [3]floors }

func newGenModel() *genModel {
	g := &genModel{}
	for i := range g.f {
		g.f[i] = floors{-1, -1, -1}
	}

	return g
}

func rel(t *rapid.T, base int64, label string) int64 {
	// below / equal / above the current floor (or small absolute values when there is none)
	if base < 0 {
		return int64(rapid.IntRange(0, 12).Draw(t, label+"_abs"))
	}
	v := base + int64(rapid.SampledFrom([]int{-3, -1, 0, 0, 1, 2, 5}).Draw(t, label+"_rel"))
	if v < 0 {
		v = 0
	}

	return v
}

var malformedNumbers = []string{"abc", "-5", "-1", "18446744073709551616", "", "1.5", "0x10", " 7", "+3"}

// hugeNumbers are legal unsigned 64-bit values that do not fit Dirk's signed records.
var hugeNumbers = []string{"9223372036854775808", "18446744073709551615", "9223372036854775807", "12000000000000000000"}
var malformedKeys = []string{"0x1234", "zz", "0x" + strings.Repeat("ab", 49), "", "0x" + strings.Repeat("g", 96)}

func genFile(t *rapid.T, g *genModel) (string, []FileEntry, bool) {
	meta := "ok"
	if rapid.IntRange(0, 9).Draw(t, "badmeta") == 0 {
		meta = rapid.SampledFrom([]string{"version-4", "version-empty", "version-missing", "other-root", "root-case", "no-metadata"}).Draw(t, "meta")
	}
	malformed := rapid.IntRange(0, 9).Draw(t, "malformed") == 0
	n := rapid.IntRange(1, 4).Draw(t, "nentries")
	var es []FileEntry
	for i := 0; i < n; i++ {
		k := rapid.IntRange(0, 2).Draw(t, "fkey")
		e := FileEntry{Key: strconv.Itoa(k)}
		if rapid.IntRange(0, 3).Draw(t, "respell") == 0 {
			e.Spell = rapid.IntRange(1, 3).Draw(t, "spell")
		}
		nb := rapid.IntRange(0, 3).Draw(t, "nblocks")
		for j := 0; j < nb; j++ {
			e.Blocks = append(e.Blocks, strconv.FormatInt(rel(t, g.f[k].slot, "slot"), 10))
		}
		na := rapid.IntRange(0, 3).Draw(t, "natts")
		for j := 0; j < na; j++ {
			e.Atts = append(e.Atts, [2]string{strconv.FormatInt(rel(t, g.f[k].src, "src"), 10), strconv.FormatInt(rel(t, g.f[k].tgt, "tgt"), 10)})
		}
		if rapid.IntRange(0, 14).Draw(t, "huge") == 0 {
			if rapid.Bool().Draw(t, "huge_block") {
				e.Blocks = append(e.Blocks, rapid.SampledFrom(hugeNumbers).Draw(t, "huge_slot"))
			} else {
				e.Atts = append(e.Atts, [2]string{"3", rapid.SampledFrom(hugeNumbers).Draw(t, "huge_tgt")})
			}
		}
		if malformed && rapid.Bool().Draw(t, "mal_here") {
			switch rapid.IntRange(0, 2).Draw(t, "mal_kind") {
			case 0:
				e.Key = rapid.SampledFrom(malformedKeys).Draw(t, "mal_key")
			case 1:
				e.Blocks = append(e.Blocks, rapid.SampledFrom(malformedNumbers).Draw(t, "mal_num"))
			default:
				e.Atts = append(e.Atts, [2]string{rapid.SampledFrom(malformedNumbers).Draw(t, "mal_src"), "5"})
			}
		}
		es = append(es, e)
	}

	return meta, es, malformed
}

func genCase(t *rapid.T) *Case {
	g := newGenModel()
	c := &Case{}
	n := rapid.IntRange(1, 10).Draw(t, "nsteps")
	for i := 0; i < n; i++ {
		switch k := rapid.IntRange(0, 99).Draw(t, "kind"); {
		case k < 22:
			key := rapid.IntRange(0, 2).Draw(t, "key")
			src := uint64(rel(t, g.f[key].src, "ssrc"))
			tgt := uint64(rel(t, g.f[key].tgt, "stgt"))
			if tgt <= src {
				tgt = src + 1
			}
			c.Steps = append(c.Steps, Step{Kind: "sign-att", Key: key, Src: src, Tgt: tgt})
			// the generator's floors are only a steering aid; the interpreter keeps the real model
			if int64(tgt) > g.f[key].tgt && int64(src) >= g.f[key].src {
				g.f[key].src, g.f[key].tgt = int64(src), int64(tgt)
			}
		case k < 38:
			key := rapid.IntRange(0, 2).Draw(t, "key")
			slot := uint64(rel(t, g.f[key].slot, "sslot"))
			c.Steps = append(c.Steps, Step{Kind: "sign-prop", Key: key, Slot: slot})
			if int64(slot) > g.f[key].slot {
				g.f[key].slot = int64(slot)
			}
		case k < 90:
			meta, es, _ := genFile(t, g)
			c.Steps = append(c.Steps, Step{Kind: "import", Meta: meta, Entries: es})
			if meta == "ok" {
				for _, e := range es {
					ki, err := strconv.Atoi(e.Key)
					if err != nil || ki > 2 {
						continue
					}
					for _, b := range e.Blocks {
						if v, err := strconv.ParseInt(b, 10, 64); err == nil && v > g.f[ki].slot {
							g.f[ki].slot = v
						}
					}
					for _, a := range e.Atts {
						if v, err := strconv.ParseInt(a[0], 10, 64); err == nil && v > g.f[ki].src {
							g.f[ki].src = v
						}
						if v, err := strconv.ParseInt(a[1], 10, 64); err == nil && v > g.f[ki].tgt {
							g.f[ki].tgt = v
						}
					}
				}
			}
		default:
			c.Steps = append(c.Steps, Step{Kind: "restart"})
		}
	}

	return c
}

func buildFile(s *Step) ([]byte, bool) {
	doc := &Interchange{}
	v5, v4, empty := "5", "4", ""
	root, other, upper := GenesisRoot, OtherRoot, "0x"+strings.ToUpper(GenesisRoot[2:])
	switch s.Meta {
	case "ok":
		doc.Metadata = &Meta{Version: &v5, Root: &root}
	case "version-4":
		doc.Metadata = &Meta{Version: &v4, Root: &root}
	case "version-empty":
		doc.Metadata = &Meta{Version: &empty, Root: &root}
	case "version-missing":
		doc.Metadata = &Meta{Root: &root}
	case "other-root":
		doc.Metadata = &Meta{Version: &v5, Root: &other}
	case "root-case":
		doc.Metadata = &Meta{Version: &v5, Root: &upper}
	case "no-metadata":
	}
	wellFormed := true
	for _, e := range s.Entries {
		d := &Data{}
		if ki, err := strconv.Atoi(e.Key); err == nil && ki >= 0 && ki <= 2 && len(e.Key) == 1 {
			d.PubKey = spell(KeyHex(ki), e.Spell)
		} else {
			d.PubKey = e.Key
			wellFormed = false
		}
		for _, b := range e.Blocks {
			d.Blocks = append(d.Blocks, Block{Slot: b})
			if _, ok := parseU(b); !ok {
				wellFormed = false
			}
		}
		for _, a := range e.Atts {
			d.Atts = append(d.Atts, AttE{Source: a[0], Target: a[1]})
			for _, x := range a {
				if _, ok := parseU(x); !ok {
					wellFormed = false
				}
			}
		}
		doc.Data = append(doc.Data, d)
	}
	b, _ := json.Marshal(doc)

	return b, wellFormed
}

type outcome struct {
	imports, importsOK, malformedSubmitted, mixed, repeated, respelt, rejectedMeta, malformed, firstImport, afterRestart, probes int
	trace                                                                                                    []string
}

func geq(a, b map[string][3]int64) (string, bool) {
	for k, pb := range b {
		pa, ok := a[k]
		if !ok {
			pa = [3]int64{-1, -1, -1}
		}
		for i := 0; i < 3; i++ {
			if pa[i] < pb[i] {
				return fmt.Sprintf("key %s field %d went from %d to %d", k[:8], i, pb[i], pa[i]), false
			}
		}
	}

	return "", true
}

func run(c *Case) (*outcome, *vkit.Violation, error) {
	base, err := os.MkdirTemp("", "verif-c10-")
	if err != nil {
		return nil, nil, err
	}
	defer os.RemoveAll(base)
	o := &outcome{}
	model := [3]floors{{-1, -1, -1}, {-1, -1, -1}, {-1, -1, -1}}
	var rs *Rules
	open := func() error {
		if rs != nil {
			return nil
		}
		var err error
		rs, err = OpenRules(base)

		return err
	}
	closeRules := func() error {
		if rs == nil {
			return nil
		}
		err := rs.Close()
		rs = nil

		return err
	}
	defer closeRules()
	if err := open(); err != nil {
		return o, nil, err
	}
	prev, err := rs.Export()
	if err != nil {
		return o, nil, err
	}
	restarted := false
	for si := range c.Steps {
		s := &c.Steps[si]
		switch s.Kind {
		case "restart":
			if err := closeRules(); err != nil {
				return o, nil, err
			}
			restarted = true
			o.trace = append(o.trace, "restart")
		case "sign-att":
			if err := open(); err != nil {
				return o, nil, err
			}
			r := rs.Attest(PubKeys[s.Key], s.Src, s.Tgt)
			o.trace = append(o.trace, fmt.Sprintf("att k%d (%d,%d) %s", s.Key, s.Src, s.Tgt, r))
			if r == rules.APPROVED {
				m := &model[s.Key]
				if int64(s.Src) > m.src {
					m.src = int64(s.Src)
				}
				if int64(s.Tgt) > m.tgt {
					m.tgt = int64(s.Tgt)
				}
			}
		case "sign-prop":
			if err := open(); err != nil {
				return o, nil, err
			}
			r := rs.Propose(PubKeys[s.Key], s.Slot)
			o.trace = append(o.trace, fmt.Sprintf("prop k%d %d %s", s.Key, s.Slot, r))
			if r == rules.APPROVED && int64(s.Slot) > model[s.Key].slot {
				model[s.Key].slot = int64(s.Slot)
			}
		case "import":
			if err := closeRules(); err != nil {
				return o, nil, err
			}
			file, wellFormed := buildFile(s)
			path := filepath.Join(base, fmt.Sprintf("import-%d.json", si))
			if err := os.WriteFile(path, file, 0o600); err != nil {
				return o, nil, err
			}
			code, out, err := Import(base, GenesisRoot, path)
			if err != nil {
				return o, nil, err
			}
			o.imports++
			if !wellFormed {
				o.malformedSubmitted++
			}
			o.trace = append(o.trace, fmt.Sprintf("import meta=%s wellformed=%v exit=%d", s.Meta, wellFormed, code))
			if err := open(); err != nil {
				return o, nil, fmt.Errorf("store does not open after import: %w", err)
			}
			cur, err := rs.Export()
			if err != nil {
				return o, nil, err
			}
			switch s.Meta {
			case "version-4", "version-empty", "version-missing", "other-root", "no-metadata":
				o.rejectedMeta++
				if code == 0 {
					return o, vkit.Violf("import-accepted-wrong-metadata."+s.Meta, "step %d: a file with %s was imported with exit 0 (%s)", si, s.Meta, strings.TrimSpace(out)), nil
				}
				if fmt.Sprint(cur) != fmt.Sprint(prev) {
					return o, vkit.Violf("rejected-import-changed-state", "step %d: a file with %s was rejected but the store changed from %v to %v", si, s.Meta, prev, cur), nil
				}
			}
			if code == 0 && wellFormed && (s.Meta == "ok" || s.Meta == "root-case") {
				o.importsOK++
				if restarted {
					o.afterRestart++
				}
				if len(prev) == 0 {
					o.firstImport++
				}
				seen := map[string]bool{}
				spelt := map[string]int{}
				for _, e := range s.Entries {
					ki, _ := strconv.Atoi(e.Key)
					if seen[e.Key] {
						o.repeated++
						if spelt[e.Key] != e.Spell {
							o.respelt++
						}
					}
					seen[e.Key] = true
					spelt[e.Key] = e.Spell
					fm := floors{-1, -1, -1}
					for _, b := range e.Blocks {
						v, _ := parseU(b)
						if v > fm.slot {
							fm.slot = v
						}
					}
					for _, a := range e.Atts {
						v0, _ := parseU(a[0])
						v1, _ := parseU(a[1])
						if v0 > fm.src {
							fm.src = v0
						}
						if v1 > fm.tgt {
							fm.tgt = v1
						}
					}
					m := &model[ki]
					newer := fm.slot > m.slot || fm.src > m.src || fm.tgt > m.tgt
					older := (fm.slot < m.slot) || (fm.src < m.src) || (fm.tgt < m.tgt)
					if newer && older {
						o.mixed++
					}
					if fm.slot > m.slot {
						m.slot = fm.slot
					}
					if fm.src > m.src {
						m.src = fm.src
					}
					if fm.tgt > m.tgt {
						m.tgt = fm.tgt
					}
				}
				// probes: everything at or below a floor must be refused
				for ki := range model {
					m := model[ki]
					if m.slot >= 0 {
						for _, slot := range []uint64{uint64(m.slot), uint64(m.slot) / 2} {
							o.probes++
							if r := rs.Propose(PubKeys[ki], slot); r == rules.APPROVED {
								return o, vkit.Violf("import-weakened-protection.proposal", "step %d: after a successful import key %d accepts a proposal at slot %d although slot %d is on record (own history or an imported file); trace %v", si, ki, slot, m.slot, o.trace), nil
							}
						}
					}
					if m.tgt >= 0 {
						var src uint64
						tgt := uint64(m.tgt)
						if m.src > 0 && uint64(m.src) < tgt {
							src = uint64(m.src)
						}
						if tgt == 0 {
							src = 0
						} else if src >= tgt {
							src = tgt - 1
						}
						o.probes++
						if r := rs.Attest(PubKeys[ki], src, tgt); r == rules.APPROVED {
							return o, vkit.Violf("import-weakened-protection.target", "step %d: after a successful import key %d accepts an attestation (%d,%d) although target %d is on record; trace %v", si, ki, src, tgt, m.tgt, o.trace), nil
						}
					}
					if m.src > 0 {
						src := uint64(m.src) - 1
						tgt := uint64(m.src)
						if m.tgt > m.src {
							tgt = uint64(m.tgt)
						}
						tgt += 7
						o.probes++
						if r := rs.Attest(PubKeys[ki], src, tgt); r == rules.APPROVED {
							// the probe was (wrongly) approved: nothing more to say
							return o, vkit.Violf("import-weakened-protection.source", "step %d: after a successful import key %d accepts an attestation (%d,%d) although source %d is on record; trace %v", si, ki, src, tgt, m.src, o.trace), nil
						}
					}
				}
			} else if code == 0 {
				o.malformed++
			}
		}
		// every step: the record is never lowered
		if rs != nil {
			cur, err := rs.Export()
			if err != nil {
				return o, nil, err
			}
			if why, ok := geq(cur, prev); !ok {
				return o, vkit.Violf("record-lowered", "step %d (%s): %s; trace %v", si, s.Kind, why, o.trace), nil
			}
			prev = cur
		}
	}

	return o, nil, nil
}

// TestC10 decides C10.
func TestC10(t *testing.T) {
	defer vkit.Flush()
	for _, r := range vkit.ReplayFiles("TestC10") {
		var c Case
		if err := json.Unmarshal(r.Case, &c); err != nil {
			t.Fatalf("bad replay case: %v", err)
		}
		o, v, err := run(&c)
		if err != nil {
			t.Fatalf("replay infrastructure error: %v", err)
		}
		t.Logf("replay: trace=%v", o.trace)
		vkit.Report(t, "C10", "TestC10", &c, v)
	}
	if vkit.ReplayOnly() {
		return
	}
	rapid.Check(t, func(rt *rapid.T) {
		c := genCase(rt)
		stop := vkit.Watch(c, 300*time.Second)
		o, v, err := run(c)
		stop()
		if err != nil {
			rt.Fatalf("INFRA: %v", err)
		}
		vkit.S.Eval()
		vkit.S.ClassN("imports", o.imports)
		vkit.S.ClassN("imports-exit-0-wellformed", o.importsOK)
		vkit.S.ClassN("entry-newer-in-one-field-older-in-another", o.mixed)
		vkit.S.ClassN("file-names-a-key-twice", o.repeated)
		vkit.S.ClassN("file-names-a-key-twice-in-different-spellings", o.respelt)
		vkit.S.ClassN("metadata-rejections", o.rejectedMeta)
		vkit.S.ClassN("malformed-file-exit-0", o.malformed)
		vkit.S.ClassN("malformed-file-submitted", o.malformedSubmitted)
		vkit.S.ClassN("first-import-into-empty-db", o.firstImport)
		vkit.S.ClassN("import-after-restart", o.afterRestart)
		vkit.S.ClassN("probes", o.probes)
		for _, st := range c.Steps {
			for _, e := range st.Entries {
				for _, b := range e.Blocks {
					if len(b) >= 19 {
						vkit.S.Class("file-with-value>=2^63-1")
					}
				}
				for _, a := range e.Atts {
					if len(a[1]) >= 19 {
						vkit.S.Class("file-with-value>=2^63-1")
					}
				}
			}
		}
		nt := o.mixed > 0 || o.repeated > 0
		if nt {
			vkit.S.Nontrivial(c)
		}
		vkit.S.Sample(map[string]any{"case": c, "trace": o.trace}, nt && o.importsOK > 1)
		vkit.Report(rt, "C10", "TestC10", c, v)
	})
}
