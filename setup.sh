#!/bin/sh
# Warm the Go build cache for every harness package and the dirk binary (offline; files on disk only).
set -e
cd "$(dirname "$0")"
export GOFLAGS=-mod=mod GOPROXY=off GOSUMDB=off GOTOOLCHAIN=local
python3 genmod.py /repo
T=$(mktemp -d)
trap 'rm -rf "$T"' EXIT
cd harness
for d in */; do
  d=${d%/}
  [ "$d" = testdata ] && continue
  ls "$d"/*_test.go >/dev/null 2>&1 || continue
  go test -c -tags verif -o "$T/$d.test" "./$d" || exit 1
done
(cd /repo && go build -tags verif -o "$T/dirk" .)
echo setup ok
