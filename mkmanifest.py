#!/usr/bin/env python3
"""Regenerate MANIFEST.json from checks_config.py (single source of truth for the driver and the manifest)."""
import json, os, subprocess
from checks_config import CHECKS, NOT_APPLICABLE, ENGINES

HERE = os.path.dirname(os.path.abspath(__file__))

def main():
    hooks = subprocess.run(['git', '-C', '/repo', 'log', '--format=%H %s'], capture_output=True, text=True).stdout.splitlines()
    hook_commits = [l.split()[0] for l in hooks if ' verif hooks:' in l]
    m = {
        'version': 1,
        'setup_cmd': './setup.sh',
        'hooks': {
            'guard': 'verif',
            'enable': 'go build/test -tags verif (the harness module under /verif/harness replaces github.com/attestantio/dirk with /repo and compiles it with the tag)',
            'baseline_off_cmd': 'cd /repo && go test -count=1 -vet=off -timeout 25m ./...',
            'source_commits': hook_commits,
            'add_only': True,
        },
        'engines': ENGINES,
        'checks': [],
        'not_applicable': NOT_APPLICABLE,
        'notes': 'All checks: ./check <ID> --tier quick|thorough; replay: ./check <ID> --replay <file>. See DESIGN.md.',
    }
    for pid in sorted(CHECKS):
        c = CHECKS[pid]
        m['checks'].append({
            'property_id': pid,
            'quick_cmd': './check %s --tier quick' % pid,
            'thorough_cmd': './check %s --tier thorough' % pid,
            'evidence_file': '/verif/evidence/%s.json' % pid,
            'replay_cmd_template': './check %s --replay {path}' % pid,
            'engine': c.get('engine', 'rapid-harness'),
            'level_claimed': {'category': c['level'], 'text': c['level_text'], 'design_ref': 'DESIGN.md section 3, ' + pid},
            'level_note': c['level_note'],
            'technique': c['technique'],
        })
    json.dump(m, open(os.path.join(HERE, 'MANIFEST.json'), 'w'), indent=1)

if __name__ == '__main__':
    main()
