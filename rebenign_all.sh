#!/bin/bash
# usage: rebenign_all.sh [parallelism] - re-runs every kept property-preserving change against the checks recorded for it;
# every line must say rc=0 (a VIOLATION or an exit 2 here is a false alarm of the checks)
cd /verif
P=${1:-3}
ls -d benign/C* | while read d; do
  m=$(python3 -c "import json; m=json.load(open('$d/meta.json')); print(','.join(m['checks_run'][:3]))")
  echo "$d $m"
done > /tmp/rebenign.list
cat /tmp/rebenign.list | xargs -P $P -L 1 bash -c 'SEEDCHECK_FAST=1 ./seedcheck.sh $0 b$(basename $0 | cut -d- -f1) $1 2>&1 | grep "^SEED"'
