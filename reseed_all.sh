#!/bin/bash
# usage: reseed_all.sh [parallelism]  - re-runs every kept seeded change against its property's quick check (regression of the checks)
cd /verif
P=${1:-3}
ls -d seeded/C* | while read d; do
  m=$(python3 -c "import json,sys; m=json.load(open('$d/meta.json')); print(','.join(k for k,v in m['caught_by'].items() if 'VIOLATION' in v))")
  echo "$d $m"
done > /tmp/reseed.list
cat /tmp/reseed.list | xargs -P $P -L 1 bash -c 'SEEDCHECK_FAST=1 ./seedcheck.sh $0 r$(basename $0 | cut -d- -f1) $1 2>&1 | grep "^SEED"' 
