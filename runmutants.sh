#!/bin/bash
# usage: runmutants.sh <ID> <mutant names...>   (sequential; prints one verdict line per mutant)
id=$1; shift
for m in "$@"; do ./mutant.sh "$m" "$id" < mutants/$m.sh 2>&1 | grep -E "^MUTANT|INFRA" ; done
